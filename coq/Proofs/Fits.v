(* C05: text that already fits is returned unchanged; the shortcuts of
   wrap_single_line and fill are unobservable.

   F1  first_fit_one_line (PenOK is necessary: first_fit_needs_PenOK, slow_path_needs_PenOK)
   F2  fits_first_fit            F3  fits_optimal_fit (and _gen: any penalties with nline > 0)
   F4  shortcut_unobservable_first_fit / _optimal_fit (arbitrary penalties), shortcut_texts_*
   F5  fill_shortcut_unobservable, fill_no_shortcut
   F6  mb_*, d6_*

   Deviations from the brief (each with a recorded counterexample):
   - F2-F4 need [TrimOK] (the text before the last word's whitespace does not end in a
     space).  It is a theorem for the ASCII separator (TrimOK_ascii) and, for the Unicode
     separator, follows from "the oracle never breaks between two spaces"
     (TrimOK_unicode); for an arbitrary oracle it fails (unicode_needs_TrimOK).
   - F4 needs [p <> []] for the equality of the lines INCLUDING the Cow: for the empty
     paragraph the shortcut returns Borrowed 0 and the slow path BorrowedStatic
     (shortcut_cow_differs_on_empty); the texts agree for every paragraph.
   - F1 does not need [bws <> []]; F3 does not need PenOK. *)
From Coq Require Import Lia ZArith.
From TW Require Import Wrap Custom.
From TW Require Import EscFacts Partition Greedy Lossless SplitBreak Bellman Paragraphs Pipeline.

Arguments N.add : simpl never.
Arguments N.sub : simpl never.
Arguments N.mul : simpl never.
Arguments N.leb : simpl never.
Arguments N.ltb : simpl never.
Arguments N.eqb : simpl never.

(* ================================================================== *)
(* Definitions                                                          *)
(* ================================================================== *)

(* what one word adds to the running width of both algorithms *)
Definition wcost (w : word) : N := w_width w + blen (w_ws w).
Definition tot (l : list word) : N := sum_N (map wcost l).

(* total width the algorithms compute for the whole word list on one line *)
Definition computed_width (bws : list word) : N :=
  sum_N (map (fun w => w_width w + blen (w_ws w)) bws) - blen (lastw_ws bws).

(* an inserted hyphen must have room: it is never wider than the whitespace plus the
   next fragment (always true for the built-in splitters, which insert none) *)
Definition PenOK (bws : list word) : Prop :=
  (forall a x y b, bws = a ++ x :: y :: b -> blen (w_pen x) <= blen (w_ws x) + w_width y) /\
  lastw_pen bws = [].

Lemma tot_nil : tot [] = 0.
Proof. reflexivity. Qed.

Lemma tot_cons x l : tot (x :: l) = wcost x + tot l.
Proof. reflexivity. Qed.

Lemma tot_app a b : tot (a ++ b) = tot a + tot b.
Proof.
  induction a as [|x a IH]; cbn [app]; [rewrite tot_nil; lia|].
  rewrite !tot_cons, IH. lia.
Qed.

Lemma tot_snoc a x : tot (a ++ [x]) = tot a + wcost x.
Proof. rewrite tot_app, tot_cons, tot_nil. lia. Qed.

Lemma computed_width_tot bws : computed_width bws = tot bws - blen (lastw_ws bws).
Proof. reflexivity. Qed.

Lemma computed_width_snoc init lw :
  computed_width (init ++ [lw]) = tot init + w_width lw.
Proof.
  rewrite computed_width_tot, lastw_ws_snoc, tot_snoc. unfold wcost. lia.
Qed.

(* ================================================================== *)
(* F1: first-fit puts everything on one line when it fits               *)
(* ================================================================== *)

Lemma ffr_fits lws FW : nth_width (Nm:=NumZ) lws 0 = Z.of_N FW ->
  forall xs cur w, w = Z.of_N (tot cur) ->
  (forall a x b, xs = a ++ x :: b -> cur ++ a <> [] ->
     tot (cur ++ a) + w_width x + blen (w_pen x) <= FW) ->
  ffr word word_frag lws 0 xs cur w = [cur ++ xs].
Proof.
  intros Hlw. induction xs as [|x rest IH]; intros cur w Hw H; cbn [ffr].
  - rewrite app_nil_r. reflexivity.
  - assert (Hnext : ffr word word_frag lws 0 rest (cur ++ [x])
                      (w + (fw (word_frag x) + fws (word_frag x)))%Z = [cur ++ x :: rest]).
    { rewrite IH.
      - rewrite <- app_assoc. reflexivity.
      - rewrite tot_snoc, Hw. unfold word_frag, wcost. cbn [fw fws]. lia.
      - intros a y b E Hne. rewrite <- app_assoc. cbn [app].
        apply (H (x :: a) y b); [rewrite E; reflexivity|].
        intros E'. apply app_eq_nil in E'. destruct E' as [_ E']. discriminate. }
    destruct cur as [|c cur'].
    + rewrite andb_false_r. exact Hnext.
    + assert (Hle : tot ((c :: cur') ++ []) + w_width x + blen (w_pen x) <= FW).
      { apply (H [] x rest eq_refl). discriminate. }
      rewrite app_nil_r in Hle.
      rewrite Hlw. unfold word_frag at 1 2. cbn [fw fpen].
      destruct (Z.gtb_spec (w + Z.of_N (w_width x) + Z.of_N (blen (w_pen x))) (Z.of_N FW))
        as [Hgt|_]; [lia|].
      cbn [andb]. exact Hnext.
Qed.

(* the numeric content of "it fits" *)
Lemma fits_prefixes FW bws : computed_width bws <= FW -> PenOK bws ->
  forall a x b, bws = a ++ x :: b -> tot a + w_width x + blen (w_pen x) <= FW.
Proof.
  intros Hcw [Hpen Hlast] a x b E.
  destruct b as [|y b'].
  - change (a ++ [x]) with (a ++ [x]) in E. rewrite E in Hcw, Hlast.
    rewrite computed_width_snoc in Hcw. rewrite lastw_pen_snoc in Hlast.
    rewrite Hlast. change (blen []) with 0. lia.
  - pose proof (Hpen a x y b' E) as Hp.
    assert (Hge : tot a + wcost x + w_width y <= computed_width bws).
    { destruct b' as [|z b''] eqn:Eb.
      - replace bws with ((a ++ [x]) ++ [y]) by (rewrite E, <- app_assoc; reflexivity).
        rewrite computed_width_snoc, tot_snoc. lia.
      - assert (Hne : y :: b' <> []) by discriminate.
        destruct (exists_last Hne) as [mid [lw Emid]].
        replace bws with ((a ++ [x] ++ mid) ++ [lw])
          by (rewrite E, <- !app_assoc; cbn [app]; rewrite <- Eb, Emid; reflexivity).
        rewrite computed_width_snoc, !tot_app, tot_cons, tot_nil.
        assert (Hmid : w_width y <= tot mid + w_width lw).
        { destruct mid as [|m0 mid'].
          - cbn [app] in Emid. rewrite Eb in Emid. discriminate.
          - cbn [app] in Emid. injection Emid as <- _. rewrite tot_cons. unfold wcost. lia. }
        lia. }
    unfold wcost in Hge. lia.
Qed.

(* (the brief's side condition [bws <> []] is not needed) *)
Theorem first_fit_one_line (fw sw : N) (bws : list word) :
  computed_width bws <= fw -> PenOK bws ->
  first_fit word_frag bws (map Z.of_N [fw; sw]) = [bws].
Proof.
  intros Hcw Hpen. rewrite first_fit_ffr.
  rewrite (ffr_fits (map Z.of_N [fw; sw]) fw eq_refl bws [] 0%Z); [reflexivity|reflexivity|].
  intros a x b E _. cbn [app]. exact (fits_prefixes fw bws Hcw Hpen a x b E).
Qed.

(* PenOK is necessary.  Fragment level: the second fragment is zero-width and
   penalised; 3 + 0 + 1 > 3 although the total computed width is 3. *)
Definition pen_ex : list word :=
  [mkWord [97;98;99] [] [HY] 3; mkWord [769;769;769] [] [HY] 0; mkWord [769] [] [] 0].
Example first_fit_needs_PenOK :
  computed_width pen_ex = 3 /\ lastw_pen pen_ex = [] /\
  first_fit word_frag pen_ex (map Z.of_N [3; 3]) =
    [[mkWord [97;98;99] [] [HY] 3]; [mkWord [769;769;769] [] [HY] 0; mkWord [769] [] [] 0]].
Proof. vm_compute. repeat split; reflexivity. Qed.

(* ... and end to end: "abc" followed by four combining acute accents (width 0), custom
   splitter (a split point before every third character), width 3.  The paragraph is 3
   columns wide, its fragments are exactly [pen_ex] (so the widths are additive), and it
   is wrapped into two lines. *)
Definition pen_cw : char -> N := fun c => if c =? 769 then 0 else 1.
Definition pen_o := mkOptions 3 LE_LF [] [] true FirstFit SepAscii SplCustom.
Definition pen_p : str := [97;98;99;769;769;769;769].
Example slow_path_needs_PenOK :
  dw pen_cw pen_p = 3 /\
  pipeline_words pen_cw pipe_alnum pipe_lbc custom3 pen_o true pen_p = Some pen_ex /\
  slow_path pen_cw pipe_alnum pipe_lbc custom3 ofit_dp pen_o true pen_p =
    Some [mkLine [97;98;99;45] Owned; mkLine [769;769;769;769] (Borrowed 3)].
Proof. vm_compute. repeat split; reflexivity. Qed.

(* ================================================================== *)
(* Generic facts: last word, pen_room, trimming                         *)
(* ================================================================== *)

Lemma lastw_ws_app a b : b <> [] -> lastw_ws (a ++ b) = lastw_ws b.
Proof.
  intros Hne. destruct (exists_last Hne) as [b' [l E]]. rewrite E, app_assoc.
  rewrite !lastw_ws_snoc. reflexivity.
Qed.

Lemma lastw_pen_app a b : b <> [] -> lastw_pen (a ++ b) = lastw_pen b.
Proof.
  intros Hne. destruct (exists_last Hne) as [b' [l E]]. rewrite E, app_assoc.
  rewrite !lastw_pen_snoc. reflexivity.
Qed.

Lemma lastw_ws_cons x b : b <> [] -> lastw_ws (x :: b) = lastw_ws b.
Proof. apply (lastw_ws_app [x]). Qed.

Lemma lastw_pen_cons x b : b <> [] -> lastw_pen (x :: b) = lastw_pen b.
Proof. apply (lastw_pen_app [x]). Qed.

Lemma lastw_ws_single x : lastw_ws [x] = w_ws x.
Proof. reflexivity. Qed.

Lemma lastw_pen_single x : lastw_pen [x] = w_pen x.
Proof. reflexivity. Qed.

(* the body is determined by the text and the last whitespace *)
Lemma body_determined a b : gtext a = gtext b -> lastw_ws a = lastw_ws b -> body a = body b.
Proof.
  intros Hg Hl. rewrite (gtext_body a), (gtext_body b), Hl in Hg.
  exact (app_inv_tail _ _ _ Hg).
Qed.

Lemma body_trim g : allsp (lastw_ws g) -> no_trailing_sp (body g) ->
  trim_end_sp (gtext g) = body g.
Proof.
  intros Hsp Hnt. unfold trim_end_sp.
  rewrite (split_ws_unique (gtext g) (body g) (lastw_ws g)); [reflexivity| | |].
  - apply gtext_body.
  - exact Hsp.
  - exact Hnt.
Qed.

(* every penalty has room in the text that follows the word *)
Fixpoint pen_room (ws : list word) : Prop :=
  match ws with
  | [] => True
  | x :: b => blen (w_pen x) <= blen (gtext b) /\ pen_room b
  end.

Lemma pen_room_spec ws : pen_room ws ->
  forall a x b, ws = a ++ x :: b -> blen (w_pen x) <= blen (gtext b).
Proof.
  intros H a. revert ws H. induction a as [|y a IH]; intros ws H x b E; subst ws.
  - cbn [app pen_room] in H. exact (proj1 H).
  - cbn [app pen_room] in H. exact (IH _ (proj2 H) x b eq_refl).
Qed.

Lemma pen_room_app a b : pen_room a -> pen_room b -> pen_room (a ++ b).
Proof.
  induction a as [|x a IH]; intros Ha Hb; [exact Hb|].
  cbn [app pen_room] in *. destruct Ha as [H1 H2]. split; [|exact (IH H2 Hb)].
  rewrite gtext_app, SplitBreak.blen_app. lia.
Qed.

Lemma pen_room_nopen ws : Forall (fun w => w_pen w = []) ws -> pen_room ws.
Proof.
  induction 1 as [|x r Hx _ IH]; [exact I|]. cbn [pen_room]. rewrite Hx.
  split; [change (blen []) with 0; lia|exact IH].
Qed.

(* the pieces of one word: penalties of at most one byte, none on the last piece,
   every piece after the first has a non-empty text *)
Lemma pen_room_pieces ps :
  Forall (fun p => w_pen p = [] \/ w_pen p = [HY]) ps ->
  lastw_pen ps = [] -> Forall text_ne (tl ps) -> pen_room ps.
Proof.
  induction ps as [|x r IH]; intros Hp Hl Hne; [exact I|].
  inversion Hp as [|x0 r0 Hx Hr]; subst x0 r0. cbn [tl] in Hne. cbn [pen_room].
  destruct r as [|y r'].
  - rewrite lastw_pen_single in Hl. rewrite Hl. split; [change (blen []) with 0; lia|exact I].
  - inversion Hne as [|y0 r0 Hy Hr']; subst y0 r0. split.
    + rewrite gtext_cons, !SplitBreak.blen_app.
      pose proof (blen_pos _ Hy) as Hpos.
      destruct Hx as [-> | ->]; [change (blen []) with 0; lia|].
      change (blen [HY]) with 1. lia.
    + apply IH; [exact Hr| |].
      * rewrite lastw_pen_cons in Hl by discriminate. exact Hl.
      * cbn [tl]. exact Hr'.
Qed.

Lemma pen_room_broken init l rest :
  Forall (fun p => w_ws p = [] /\ w_pen p = []) init ->
  blen (w_pen l) <= blen (gtext rest) -> pen_room rest ->
  pen_room (init ++ l :: rest).
Proof.
  intros Hi Hl Hr. induction Hi as [|x init [_ Hx] _ IH]; cbn [app pen_room].
  - split; assumption.
  - rewrite Hx. split; [change (blen []) with 0; lia|exact IH].
Qed.

(* ================================================================== *)
(* Optimal fit (reference DP, exact integers): when does the DP return  *)
(* the single range (0, n)?                                             *)
(* ================================================================== *)

Section OneLineDP.
Variable P : penalties.
Variable fs : list (frag NumZ).
Variable lws : list Z.

Notation n := (length fs).
Notation widths := (prefix_widths NumZ fs 0%Z).
Notation d := (0%nat, 0%Z).
Notation costZ := (cost NumZ P fs widths lws).
Notation minima := (dp_minima NumZ P fs lws).
Notation ent j := (@nth (nat * Z) j (dp_minima NumZ P fs lws) (0%nat, 0%Z)).

(* the width of the line made of fragments i..j-1, as the cost closure computes it *)
Definition line_w (i j : nat) : Z :=
  (nth j widths 0 - nth i widths 0 - fws (nth (j - 1) fs (dfrag NumZ))
   + fpen (nth (j - 1) fs (dfrag NumZ)))%Z.
Definition target (l : nat) : Z := Z.max (nth_width (Nm:=NumZ) lws l) 1.

(* every line costs at least the per-line penalty *)
Lemma cost_ge l mi i j : (mi + Z.of_N (p_nline P) <= costZ l mi i j)%Z.
Proof.
  unfold cost. cbn [NumZ T add sub mul max_ gtb ltb zero one of_N].
  set (lastf := nth (j - 1) fs (dfrag NumZ)).
  set (lw := Z.max _ _).
  set (lnw := (_ - _ - _ + _)%Z).
  set (sh := (i + 1 =? j)%nat && lt_div NumZ lnw lw (Z.of_N (p_frac P))).
  pose proof (N2Z.is_nonneg (p_overflow P)) as H1.
  pose proof (N2Z.is_nonneg (p_short P)) as H2.
  pose proof (N2Z.is_nonneg (p_hyphen P)) as H3.
  pose proof (Z.square_nonneg (lw - lnw)) as H4.
  destruct (Z.gtb_spec lnw lw) as [Hgt|Hle].
  - assert (H5 : (0 <= (lnw - lw) * Z.of_N (p_overflow P))%Z)
      by (apply Z.mul_nonneg_nonneg; lia).
    destruct (fpen lastf >? 0)%Z; lia.
  - destruct (fpen lastf >? 0)%Z; destruct (j <? length fs)%nat; destruct sh; lia.
Qed.

(* a line that is not the last one and leaves a gap costs strictly more *)
Lemma cost_gap l mi i j : (j < n)%nat -> (line_w i j < target l)%Z ->
  (mi + Z.of_N (p_nline P) + 1 <= costZ l mi i j)%Z.
Proof.
  unfold line_w, target, cost. cbn [NumZ T add sub mul max_ gtb ltb zero one of_N].
  set (lastf := nth (j - 1) fs (dfrag NumZ)).
  set (lw := Z.max _ _).
  set (lnw := (_ - _ - _ + _)%Z).
  intros Hj Hlt.
  pose proof (N2Z.is_nonneg (p_hyphen P)) as H3.
  assert (H4 : (1 <= (lw - lnw) * (lw - lnw))%Z) by nia.
  destruct (Z.gtb_spec lnw lw) as [Hgt|Hle]; [lia|].
  destruct (Nat.ltb_spec j (length fs)) as [_|Hge]; [|lia].
  destruct (fpen lastf >? 0)%Z; lia.
Qed.

(* the last line, when it fits and ends without a penalty *)
Lemma cost_last_le l mi i : (line_w i n <= target l)%Z ->
  fpen (nth (n - 1) fs (dfrag NumZ)) = 0%Z ->
  (costZ l mi i n <= mi + Z.of_N (p_nline P) + Z.of_N (p_short P))%Z.
Proof.
  unfold line_w, target, cost. cbn [NumZ T add sub mul max_ gtb ltb zero one of_N].
  set (lastf := nth (n - 1) fs (dfrag NumZ)).
  set (lw := Z.max _ _).
  set (lnw := (_ - _ - _ + _)%Z).
  set (sh := (i + 1 =? n)%nat && lt_div NumZ lnw lw (Z.of_N (p_frac P))).
  intros Hle Hpen. rewrite Hpen. change (0 >? 0)%Z with false.
  pose proof (N2Z.is_nonneg (p_short P)) as H2.
  destruct (Z.gtb_spec lnw lw) as [Hgt|_]; [lia|].
  rewrite Nat.ltb_irrefl. destruct sh; lia.
Qed.

Lemma cost_last_eq l mi i : (line_w i n <= target l)%Z ->
  fpen (nth (n - 1) fs (dfrag NumZ)) = 0%Z -> (i + 1 <> n)%nat ->
  costZ l mi i n = (mi + Z.of_N (p_nline P))%Z.
Proof.
  unfold line_w, target, cost. cbn [NumZ T add sub mul max_ gtb ltb zero one of_N].
  set (lastf := nth (n - 1) fs (dfrag NumZ)).
  set (lw := Z.max _ _).
  set (lnw := (_ - _ - _ + _)%Z).
  intros Hle Hpen Hne. rewrite Hpen. change (0 >? 0)%Z with false.
  destruct (Z.gtb_spec lnw lw) as [Hgt|_]; [lia|].
  rewrite Nat.ltb_irrefl.
  destruct (Nat.eqb_spec (i + 1) n) as [E|_]; [contradiction|]. reflexivity.
Qed.

(* interior entries of the DP table are bounded below by the cheapest first line *)
Lemma dp_interior_lb LB : (0 <= LB)%Z ->
  (forall j, (1 <= j < n)%nat -> (LB <= costZ 0%nat 0%Z 0%nat j)%Z) ->
  forall j, (1 <= j < n)%nat -> (LB <= snd (ent j))%Z.
Proof.
  intros HLB Hrow0.
  destruct (dp_minima_inv P fs lws) as [lnums [_ [_ [_ [Hm0 [Hl0 Hent]]]]]].
  intros j. induction j as [j IH] using (well_founded_induction lt_wf). intros Hj.
  destruct (Hent j ltac:(lia)) as [Hlt [Hval _]].
  assert (Hg : (LB <= cst P fs lws minima lnums (fst (ent j)) j)%Z).
  { unfold cst. destruct (fst (ent j)) as [|i] eqn:Ei.
    - rewrite Hl0, Hm0. cbn [snd]. apply Hrow0. exact Hj.
    - pose proof (IH (S i) Hlt ltac:(lia)) as Hi.
      pose proof (cost_ge (nth (S i) lnums 0%nat) (snd (ent (S i))) (S i) j) as Hc.
      pose proof (N2Z.is_nonneg (p_nline P)). lia. }
  apply (Z.le_trans _ _ _ Hg). apply Z.eq_le_incl. symmetry. exact Hval.
Qed.

(* if the single line is cheaper than any first line plus one more line, the last
   column's minimum is in row 0 *)
Lemma dp_last_zero LB : (1 <= n)%nat -> (0 <= LB)%Z ->
  (forall j, (1 <= j < n)%nat -> (LB <= costZ 0%nat 0%Z 0%nat j)%Z) ->
  (costZ 0%nat 0%Z 0%nat n < LB + Z.of_N (p_nline P))%Z ->
  fst (ent n) = 0%nat.
Proof.
  intros Hn HLB Hrow0 Hsingle.
  pose proof (dp_interior_lb LB HLB Hrow0) as Hint.
  destruct (dp_minima_inv P fs lws) as [lnums [_ [_ [_ [Hm0 [Hl0 Hent]]]]]].
  destruct (Hent n ltac:(lia)) as [Hlt [Hval [Hmin _]]].
  destruct (fst (ent n)) as [|i] eqn:Ei; [reflexivity|]. exfalso.
  pose proof (Hmin 0%nat ltac:(lia)) as H0. unfold cst in H0, Hval.
  rewrite Hl0, Hm0 in H0. cbn [snd] in H0.
  pose proof (cost_ge (nth (S i) lnums 0%nat) (snd (ent (S i))) (S i) n) as Hc.
  pose proof (Hint (S i) ltac:(lia)) as Hi. lia.
Qed.

Lemma dp_backtrack_one LB : (1 <= n)%nat -> (0 <= LB)%Z ->
  (forall j, (1 <= j < n)%nat -> (LB <= costZ 0%nat 0%Z 0%nat j)%Z) ->
  (costZ 0%nat 0%Z 0%nat n < LB + Z.of_N (p_nline P))%Z ->
  backtrack NumZ (S n) minima n [] = Some [(0%nat, n)].
Proof.
  intros Hn HLB Hrow0 Hsingle.
  pose proof (dp_last_zero LB Hn HLB Hrow0 Hsingle) as Hz.
  destruct (dp_minima_ok P fs lws) as [Hlen _]. cbn [T NumZ] in Hlen.
  cbn [backtrack T NumZ]. rewrite (@nth_error_nth' (nat * Z) minima n d) by (rewrite Hlen; lia).
  destruct (ent n) as [prev c]. cbn [fst] in Hz. subst prev.
  destruct (Nat.ltb_spec n 0) as [Hlt|_]; [lia|]. reflexivity.
Qed.
End OneLineDP.

Theorem optimal_fit_one_line (A : Type) (m : A -> frag NumZ) P (xs : list A) lws LB :
  xs <> [] -> (0 <= LB)%Z ->
  (forall j, (1 <= j < length xs)%nat ->
     (LB <= cost NumZ P (map m xs) (prefix_widths NumZ (map m xs) 0%Z) lws 0%nat 0%Z 0%nat j)%Z) ->
  (cost NumZ P (map m xs) (prefix_widths NumZ (map m xs) 0%Z) lws 0%nat 0%Z 0%nat (length xs)
     < LB + Z.of_N (p_nline P))%Z ->
  optimal_fit m P xs lws = Some [xs].
Proof.
  intros Hne HLB Hrow0 Hsingle.
  assert (Hn : (1 <= length (map m xs))%nat).
  { rewrite map_length. destruct xs; [congruence|cbn [length]; lia]. }
  unfold optimal_fit, optimal_fit_with.
  pose proof (dp_backtrack_one P (map m xs) lws LB Hn HLB) as Hbt.
  rewrite map_length in Hbt. rewrite (Hbt Hrow0 Hsingle).
  cbn [map]. rewrite slice_all. reflexivity.
Qed.

(* ================================================================== *)
(* The words of the pipeline: last word, room for penalties             *)
(* ================================================================== *)

Section Fit.
Variable cw : char -> N.
Variable alnum : char -> bool.
Variable lbc : str -> list N.
Variable custom_sp : str -> list N.

Notation pwords := (pipeline_words cw alnum lbc custom_sp).

Lemma sw_loop_last_room w pts ps : valid_pts (w_word w) pts ->
  allsp (w_ws w) -> w_pen w = [] -> sw_loop cw w pts 0 = Some ps ->
  ps <> [] /\ lastw_ws ps = w_ws w /\ lastw_pen ps = [] /\ pen_room ps.
Proof.
  intros Hv Hws Hpen Hps.
  pose proof (sw_loop_PW cw w Hws (or_introl Hpen) pts 0 ps Hps) as HPW.
  destruct (sw_loop_valid cw w pts Hv) as [ps' [E [_ [_ [Hlen [Hne [_ [Hlast _]]]]]]]].
  rewrite Hps in E. injection E as <-.
  assert (Hnn : ps <> []) by (intros ->; discriminate).
  destruct (exists_last Hnn) as [init [l El]].
  destruct (Hlast init l El) as [L1 L2].
  assert (Hlp : lastw_pen ps = []) by (rewrite El, lastw_pen_snoc, L2; exact Hpen).
  split; [exact Hnn|]. split; [rewrite El, lastw_ws_snoc; exact L1|]. split; [exact Hlp|].
  apply pen_room_pieces; [|exact Hlp|].
  - eapply Forall_impl; [|exact HPW]. intros p [_ [Hp _]]. exact Hp.
  - destruct (w_word w) as [|c r] eqn:Ew.
    + destruct pts as [|o pts'].
      * destruct ps as [|p [|q ps']]; try discriminate. constructor.
      * destruct Hv as [_ Hv]. inversion Hv as [|o0 r0 Ho _]; subst.
        exfalso. exact (proper_cut_nil o Ho).
    + apply Forall_tl. apply Hne. discriminate.
Qed.

Lemma split_words_last_room sp : (forall w, valid_pts w (sp w)) -> forall ws ps,
  Forall (fun w => allsp (w_ws w) /\ w_pen w = []) ws ->
  split_words cw sp ws = Some ps ->
  (ws <> [] -> ps <> []) /\ lastw_ws ps = lastw_ws ws /\ lastw_pen ps = [] /\ pen_room ps.
Proof.
  intros Hsp. induction ws as [|w r IH]; intros ps Hws H; cbn [split_words] in H.
  - injection H as <-. split; [congruence|]. split; [reflexivity|]. split; [reflexivity|exact I].
  - inversion Hws as [|w0 r0 [Hw1 Hw2] Hr]; subst w0 r0.
    destruct (sw_loop cw w (sp (w_word w)) 0) as [a|] eqn:Ea; [|discriminate].
    destruct (split_words cw sp r) as [b|] eqn:Eb; [|discriminate].
    injection H as <-.
    destruct (sw_loop_last_room w _ a (Hsp (w_word w)) Hw1 Hw2 Ea) as [A1 [A2 [A3 A4]]].
    destruct (IH b Hr eq_refl) as [B1 [B2 [B3 B4]]].
    split; [intros _ E; apply app_eq_nil in E; destruct E; contradiction|].
    destruct r as [|y r'].
    + cbn [split_words] in Eb. injection Eb as <-. rewrite app_nil_r.
      split; [exact A2|]. split; [exact A3|exact A4].
    + assert (Hb : b <> []) by (apply B1; discriminate).
      split; [rewrite (lastw_ws_app a b Hb), B2; symmetry; apply lastw_ws_cons; discriminate|].
      split; [rewrite (lastw_pen_app a b Hb); exact B3|].
      apply pen_room_app; assumption.
Qed.

Lemma break_words_last_room lim : forall ws, Forall (PW cw) ws -> pen_room ws ->
  (ws <> [] -> break_words cw lim ws <> []) /\
  lastw_ws (break_words cw lim ws) = lastw_ws ws /\
  lastw_pen (break_words cw lim ws) = lastw_pen ws /\
  pen_room (break_words cw lim ws).
Proof.
  induction ws as [|w r IH]; intros Hpw Hroom.
  - split; [congruence|]. split; [reflexivity|]. split; [reflexivity|exact I].
  - inversion Hpw as [|w0 r0 Hw Hr]; subst w0 r0.
    cbn [pen_room] in Hroom. destruct Hroom as [R1 R2].
    destruct (IH Hr R2) as [B1 [B2 [B3 B4]]].
    destruct (break_words_spec cw lim r Hr) as [Hg _].
    assert (Hpieces : exists init l,
      (if lim <? w_width w then break_apart cw lim w else [w]) = init ++ [l] /\
      Forall (fun p => w_ws p = [] /\ w_pen p = []) init /\
      w_ws l = w_ws w /\ w_pen l = w_pen w).
    { destruct (N.ltb_spec lim (w_width w)) as [Hlt|Hge].
      - destruct (break_apart_cases cw lim w) as [[_ E]|H]; [|exact H].
        exfalso. destruct Hw as [_ [_ Hwd]]. rewrite E in Hwd.
        change (dw cw []) with 0 in Hwd. lia.
      - exists [], w. split; [reflexivity|]. split; [constructor|]. split; reflexivity. }
    destruct Hpieces as [init [l [E [Hi [L1 L2]]]]].
    assert (Ebw : break_words cw lim (w :: r) = init ++ l :: break_words cw lim r).
    { unfold break_words. cbn [flat_map]. rewrite E, <- app_assoc. reflexivity. }
    rewrite Ebw.
    split; [intros _ E'; apply app_eq_nil in E'; destruct E' as [_ E']; discriminate|].
    split; [|split].
    + destruct r as [|y r'].
      * change (break_words cw lim []) with (@nil word).
        rewrite lastw_ws_snoc, lastw_ws_single. exact L1.
      * assert (Hb : break_words cw lim (y :: r') <> []) by (apply B1; discriminate).
        change (init ++ l :: break_words cw lim (y :: r'))
          with (init ++ [l] ++ break_words cw lim (y :: r')).
        rewrite app_assoc, (lastw_ws_app _ _ Hb), B2. symmetry. apply lastw_ws_cons. discriminate.
    + destruct r as [|y r'].
      * change (break_words cw lim []) with (@nil word).
        rewrite lastw_pen_snoc, lastw_pen_single. exact L2.
      * assert (Hb : break_words cw lim (y :: r') <> []) by (apply B1; discriminate).
        change (init ++ l :: break_words cw lim (y :: r'))
          with (init ++ [l] ++ break_words cw lim (y :: r')).
        rewrite app_assoc, (lastw_pen_app _ _ Hb), B3. symmetry. apply lastw_pen_cons. discriminate.
    + apply pen_room_broken; [exact Hi| |exact B4]. rewrite L2, Hg. exact R1.
Qed.

Lemma cut_positions_nil opps : cut_positions opps [] = [].
Proof. induction opps as [|o r IH]; [reflexivity|]. cbn [cut_positions find_idx]. exact IH. Qed.

Lemma find_words_nil k : find_words cw lbc k [] = [].
Proof.
  destruct k; cbn [find_words]; [reflexivity|].
  unfold find_words_unicode. cbn zeta. change (idx_map []) with (@nil (nat * N)).
  rewrite cut_positions_nil. reflexivity.
Qed.

(* (i) the last word of the list handed to the algorithm carries no penalty;
   (ii) every penalty is at most as long as the text after its word;
   (iii) the whitespace of the last word is that of the last word found by the separator;
   (iv) no words at all for the empty paragraph unless the sentinel is added *)
Theorem pipeline_words_room o first p bws : SplitterOK custom_sp ->
  pwords o first p = Some bws ->
  lastw_pen bws = [] /\ pen_room bws /\
  lastw_ws bws = lastw_ws (find_words cw lbc (o_sep o) p) /\
  (p = [] -> (if first then o_ii o else o_si o) = [] -> bws = []).
Proof.
  intros HS H. unfold pipeline_words in H.
  destruct (split_words cw (split_points alnum custom_sp (o_spl o)) (find_words cw lbc (o_sep o) p))
    as [sws|] eqn:Es; [|discriminate].
  destruct (find_words_spec cw lbc (o_sep o) p) as [_ Hok].
  assert (Hfw : Forall (fun w => allsp (w_ws w) /\ w_pen w = []) (find_words cw lbc (o_sep o) p)).
  { eapply Forall_impl; [|exact Hok]. intros w [H1 [_ [H3 _]]]. split; assumption. }
  assert (Hpw : Forall (PW cw) (find_words cw lbc (o_sep o) p)).
  { eapply Forall_impl; [|exact Hok]. apply WordOK_PW. }
  destruct (split_words_last_room _ (split_points_valid alnum custom_sp HS (o_spl o)) _ sws Hfw Es)
    as [S1 [S2 [S3 S4]]].
  pose proof (split_words_PW cw _ _ sws Hpw Es) as Hpws.
  assert (Hnil : p = [] -> sws = []).
  { intros ->. rewrite find_words_nil in Es. cbn [split_words] in Es. injection Es as <-. reflexivity. }
  injection H as <-.
  destruct (o_bw o).
  - destruct (break_words_last_room (o_width o - dw cw (o_si o)) sws Hpws S4) as [B1 [B2 [B3 B4]]].
    destruct (nonempty (if first then o_ii o else o_si o)) eqn:En.
    + rewrite sentinel_eq.
      destruct (break_words cw (o_width o - dw cw (o_si o)) sws) as [|y b'] eqn:Eb.
      * split; [reflexivity|]. split; [cbn [pen_room]; split; [cbn; lia|exact I]|].
        split; [|intros _ Ei; rewrite Ei in En; discriminate].
        rewrite <- S2. destruct sws as [|s sws']; [reflexivity|].
        exfalso. apply B1; [discriminate|reflexivity].
      * rewrite <- Eb in *. assert (Hb : break_words cw (o_width o - dw cw (o_si o)) sws <> [])
          by (rewrite Eb; discriminate).
        split; [rewrite (lastw_pen_cons _ _ Hb), B3; exact S3|].
        split; [cbn [pen_room w_pen]; split; [cbn; lia|exact B4]|].
        split; [rewrite (lastw_ws_cons _ _ Hb), B2; exact S2|].
        intros _ Ei. rewrite Ei in En. discriminate.
    + split; [rewrite B3; exact S3|]. split; [exact B4|]. split; [rewrite B2; exact S2|].
      intros Hp _. rewrite (Hnil Hp). reflexivity.
  - split; [exact S3|]. split; [exact S4|]. split; [exact S2|].
    intros Hp _. exact (Hnil Hp).
Qed.

(* ================================================================== *)
(* The cost of the first line, on words                                 *)
(* ================================================================== *)

Lemma pw_nth : forall bws acc j, (j <= length bws)%nat ->
  nth j (prefix_widths NumZ (map word_frag bws) acc) 0%Z = (acc + Z.of_N (tot (firstn j bws)))%Z.
Proof.
  induction bws as [|x r IH]; intros acc j Hj.
  - cbn [length] in Hj. assert (j = 0%nat) by lia. subst j. cbn. lia.
  - destruct j as [|j'].
    + cbn. lia.
    + cbn [map prefix_widths nth firstn]. rewrite IH by (cbn [length] in Hj; lia).
      rewrite tot_cons. unfold word_frag, wcost. cbn [fw fws NumZ add]. lia.
Qed.

Lemma firstn_succ_app (a : list word) x b : firstn (S (length a)) (a ++ x :: b) = a ++ [x].
Proof.
  induction a as [|y a IH]; [reflexivity|].
  change (firstn (S (length (y :: a))) ((y :: a) ++ x :: b))
    with (y :: firstn (S (length a)) (a ++ x :: b)).
  rewrite IH. reflexivity.
Qed.

Lemma nth_frag a x b :
  nth (S (length a) - 1) (map word_frag (a ++ x :: b)) (dfrag NumZ) = word_frag x.
Proof.
  replace (S (length a) - 1)%nat with (length a) by lia.
  rewrite map_app, app_nth2; rewrite map_length; [|lia].
  rewrite Nat.sub_diag. reflexivity.
Qed.

Lemma line_w_words bws a x b : bws = a ++ x :: b ->
  line_w (map word_frag bws) 0 (S (length a)) = Z.of_N (tot a + w_width x + blen (w_pen x)).
Proof.
  intros E. unfold line_w. rewrite !pw_nth.
  - rewrite E, nth_frag, firstn_succ_app. cbn [firstn]. rewrite tot_nil, tot_snoc.
    unfold word_frag, wcost. cbn [fws fpen]. lia.
  - lia.
  - rewrite E, app_length. cbn [length]. lia.
Qed.

Lemma target_two (fw sw : N) : (Z.of_N fw <= target (map Z.of_N [fw; sw]) 0)%Z.
Proof. unfold target, nth_width. cbn [map nth]. lia. Qed.

Lemma length_snoc (init : list word) lw : length (init ++ [lw]) = S (length init).
Proof. rewrite app_length. cbn [length]. lia. Qed.

(* F3 at the fragment level: the words fit on the first line.  Any penalties with a
   positive per-line penalty: the single line costs [nline] (plus [short] when it is a
   single fragment, and then there is no other arrangement), every arrangement with a
   break at least [2 * nline]. *)
Theorem optimal_fit_fits_gen P (fw sw : N) (bws : list word) :
  0 < p_nline P ->
  computed_width bws <= fw -> lastw_pen bws = [] -> bws <> [] ->
  optimal_fit word_frag P bws (map Z.of_N [fw; sw]) = Some [bws].
Proof.
  intros Hnl0 Hcw Hlast Hne.
  destruct (exists_last Hne) as [init [lw E]].
  assert (En : length bws = length (map word_frag bws)) by (symmetry; apply map_length).
  pose proof (target_two fw sw) as Htg.
  assert (Hlw : (line_w (map word_frag bws) 0 (length (map word_frag bws))
                 <= target (map Z.of_N [fw; sw]) 0)%Z).
  { rewrite <- En. rewrite E at 2. rewrite length_snoc.
    rewrite (line_w_words bws init lw [] E).
    rewrite E, lastw_pen_snoc in Hlast. rewrite Hlast. change (blen []) with 0.
    rewrite E, computed_width_snoc in Hcw. lia. }
  assert (Hpen : fpen (nth (length (map word_frag bws) - 1) (map word_frag bws) (dfrag NumZ)) = 0%Z).
  { rewrite <- En. rewrite E at 1. rewrite length_snoc. rewrite E, nth_frag.
    rewrite E, lastw_pen_snoc in Hlast. unfold word_frag. cbn [fpen]. rewrite Hlast. reflexivity. }
  destruct (Nat.eq_dec (length bws) 1) as [H1|H1].
  - apply (optimal_fit_one_line word word_frag P bws _
             (cost NumZ P (map word_frag bws) (prefix_widths NumZ (map word_frag bws) 0%Z)
                   (map Z.of_N [fw; sw]) 0 0%Z 0 (length bws) + 1)%Z Hne).
    + pose proof (cost_ge P (map word_frag bws) (map Z.of_N [fw; sw]) 0 0%Z 0 (length bws)). lia.
    + intros j Hj. lia.
    + lia.
  - apply (optimal_fit_one_line word word_frag P bws _ (Z.of_N (p_nline P)) Hne); [lia| |].
    + intros j _.
      pose proof (cost_ge P (map word_frag bws) (map Z.of_N [fw; sw]) 0 0%Z 0 j). lia.
    + rewrite En.
      rewrite (cost_last_eq P (map word_frag bws) (map Z.of_N [fw; sw]) 0 0%Z 0 Hlw Hpen).
      * lia.
      * rewrite <- En. assert (length bws <> 0%nat) by (destruct bws; [congruence|discriminate]). lia.
Qed.

Corollary optimal_fit_fits (fw sw : N) (bws : list word) :
  computed_width bws <= fw -> lastw_pen bws = [] -> bws <> [] ->
  optimal_fit word_frag default_penalties bws (map Z.of_N [fw; sw]) = Some [bws].
Proof. apply optimal_fit_fits_gen. reflexivity. Qed.

(* F4 at the fragment level: ARBITRARY penalties, every prefix (with its penalty) is
   strictly narrower than the first line *)
Theorem optimal_fit_slack P (fw sw : N) (bws : list word) :
  (forall a x b, bws = a ++ x :: b -> tot a + w_width x + blen (w_pen x) < fw) ->
  lastw_pen bws = [] -> bws <> [] ->
  optimal_fit word_frag P bws (map Z.of_N [fw; sw]) = Some [bws].
Proof.
  intros Hfit Hlast Hne.
  destruct (exists_last Hne) as [init [lw E]].
  assert (En : length bws = length (map word_frag bws)) by (symmetry; apply map_length).
  pose proof (N2Z.is_nonneg (p_nline P)) as Hnl.
  pose proof (target_two fw sw) as Htg.
  assert (Hlw : (line_w (map word_frag bws) 0 (length (map word_frag bws))
                 <= target (map Z.of_N [fw; sw]) 0)%Z).
  { rewrite <- En. rewrite E at 2. rewrite length_snoc.
    rewrite (line_w_words bws init lw [] E).
    pose proof (Hfit init lw [] E). lia. }
  assert (Hpen : fpen (nth (length (map word_frag bws) - 1) (map word_frag bws) (dfrag NumZ)) = 0%Z).
  { rewrite <- En. rewrite E at 1. rewrite length_snoc. rewrite E, nth_frag.
    rewrite E, lastw_pen_snoc in Hlast. unfold word_frag. cbn [fpen]. rewrite Hlast. reflexivity. }
  destruct (Nat.eq_dec (length bws) 1) as [H1|H1].
  - (* a single fragment: nothing to compare with *)
    apply (optimal_fit_one_line word word_frag P bws _
             (cost NumZ P (map word_frag bws) (prefix_widths NumZ (map word_frag bws) 0%Z)
                   (map Z.of_N [fw; sw]) 0 0%Z 0 (length bws) + 1)%Z Hne).
    + pose proof (cost_ge P (map word_frag bws) (map Z.of_N [fw; sw]) 0 0%Z 0 (length bws)). lia.
    + intros j Hj. lia.
    + lia.
  - apply (optimal_fit_one_line word word_frag P bws _ (Z.of_N (p_nline P) + 1)%Z Hne); [lia| |].
    + intros j Hj.
      destruct (nth_split bws lw (n := (j - 1)%nat) ltac:(lia)) as [a [b [Eab Hla]]].
      pose proof (cost_gap P (map word_frag bws) (map Z.of_N [fw; sw]) 0 0%Z 0 j) as H.
      rewrite <- En in H.
      assert (Hj' : j = S (length a)) by lia.
      rewrite Hj' in H |- *. rewrite (line_w_words bws a _ b Eab) in H.
      pose proof (Hfit a _ b Eab).
      specialize (H ltac:(lia) ltac:(lia)). lia.
    + rewrite En.
      rewrite (cost_last_eq P (map word_frag bws) (map Z.of_N [fw; sw]) 0 0%Z 0 Hlw Hpen).
      * lia.
      * rewrite <- En. assert (length bws <> 0%nat) by (destruct bws; [congruence|discriminate]). lia.
Qed.

(* ================================================================== *)
(* One line out of the slow path                                        *)
(* ================================================================== *)

(* finding D6 is the negation of this *)
Definition Additive (o : options) (first : bool) (p : str) : Prop :=
  forall bws, pwords o first p = Some bws -> computed_width bws = dw cw (trim_end_sp p).

(* the text before the whitespace of the last word does not end in a space.  Always
   true with the ASCII separator ([TrimOK_ascii]); with the Unicode separator it is a
   property of the line-break oracle (see [unicode_needs_TrimOK] below) *)
Definition TrimOK (o : options) (first : bool) (p : str) : Prop :=
  forall bws, pwords o first p = Some bws -> no_trailing_sp (body bws).

(* the single line: indentation, then the paragraph without its trailing spaces *)
Definition one_line (o : options) (first : bool) (p : str) : oline :=
  let ind := if first then o_ii o else o_si o in
  mkLine (ind ++ trim_end_sp p)
         (if nonempty ind then Owned else if nonempty p then Borrowed 0 else BorrowedStatic).

Lemma TrimOK_ascii o first p : SplitterOK custom_sp -> o_sep o = SepAscii -> TrimOK o first p.
Proof.
  intros HS Hsep bws E.
  assert (Hc : concat [bws] = bws) by (cbn [concat]; apply app_nil_r).
  pose proof (slow_path_ascii_no_trailing_sp cw alnum lbc custom_sp o first p bws [bws] HS Hsep E Hc)
    as H.
  inversion H; assumption.
Qed.

(* in general it is a property of the words found by the separator *)
Lemma TrimOK_found o first p : SplitterOK custom_sp ->
  no_trailing_sp (body (find_words cw lbc (o_sep o) p)) -> TrimOK o first p.
Proof.
  intros HS Hnt bws E.
  destruct (pipeline_words_spec cw alnum lbc custom_sp o first p HS) as [bws' [E1 [E2 _]]].
  rewrite E in E1. injection E1 as <-.
  destruct (pipeline_words_room o first p bws HS E) as [_ [_ [R3 _]]].
  destruct (find_words_spec cw lbc (o_sep o) p) as [Hg _].
  rewrite (body_determined bws (find_words cw lbc (o_sep o) p)); [exact Hnt| |exact R3].
  rewrite E2, Hg. reflexivity.
Qed.

Theorem slow_path_one_line ofit o first p : SplitterOK custom_sp -> TrimOK o first p ->
  (forall bws, pwords o first p = Some bws ->
     run_alg ofit (o_alg o) bws (line_widths cw o first) = Some [bws]) ->
  slow_path cw alnum lbc custom_sp ofit o first p = Some [one_line o first p].
Proof.
  intros HS HT Hrun.
  destruct (pipeline_words_spec cw alnum lbc custom_sp o first p HS) as [bws [E1 [E2 [P1 _]]]].
  destruct (pipeline_words_room o first p bws HS E1) as [R1 [_ [_ R4]]].
  rewrite slow_path_unfold, E1, (Hrun bws E1).
  unfold one_line. destruct bws as [|w0 bws'] eqn:Eb.
  - rewrite reassemble_degenerate. rewrite gtext_nil in E2. subst p.
    unfold indent_line. change (trim_end_sp []) with (@nil char). rewrite app_nil_r.
    destruct (if first then o_ii o else o_si o); reflexivity.
  - rewrite <- Eb in *.
    assert (Hne : bws <> []) by (rewrite Eb; discriminate).
    change 0 with (blen []).
    rewrite (reassemble_spec o p [bws] [] [] first).
    + cbn [lines_of]. rewrite R1, app_nil_r. cbn [nonempty]. rewrite orb_false_r.
      assert (Hb : body bws = trim_end_sp p).
      { rewrite <- E2. symmetry. apply body_trim; [|exact (HT bws E1)].
        assert (Hpw : Forall (fun w => allsp (w_ws w)) bws) by exact P1.
        destruct (exists_last Hne) as [init [lw El]]. rewrite El in Hpw |- *.
        rewrite lastw_ws_snoc. apply Forall_app in Hpw. destruct Hpw as [_ Hpw].
        inversion Hpw; assumption. }
      rewrite Hb.
      destruct (if first then o_ii o else o_si o) as [|c r] eqn:Ei; [|reflexivity].
      cbn [nonempty]. destruct p as [|c0 p']; [|reflexivity].
      exfalso. apply Hne. apply R4; reflexivity.
    + constructor; [exact Hne|constructor].
    + cbn [concat app]. rewrite !app_nil_r. symmetry. exact E2.
Qed.

(* ================================================================== *)
(* F2: (C05 a) first-fit                                                *)
(* ================================================================== *)

Theorem fits_first_fit ofit o first p :
  SplitterOK custom_sp -> o_alg o = FirstFit -> TrimOK o first p -> Additive o first p ->
  (forall bws, pwords o first p = Some bws -> PenOK bws) ->
  dw cw (trim_end_sp p) + dw cw (if first then o_ii o else o_si o) <= o_width o ->
  slow_path cw alnum lbc custom_sp ofit o first p = Some [one_line o first p].
Proof.
  intros HS Halg HT Hadd Hpen Hfit.
  apply slow_path_one_line; [exact HS|exact HT|].
  intros bws E. rewrite Halg. cbn [run_alg]. f_equal.
  unfold line_widths. apply first_fit_one_line; [|exact (Hpen bws E)].
  rewrite (Hadd bws E). destruct first; lia.
Qed.

(* ================================================================== *)
(* F3: (C05 a) optimal-fit, reference oracle, default penalties         *)
(* ================================================================== *)

Lemma optimal_fit_nil P lws : optimal_fit word_frag P [] lws = Some [[]].
Proof. exact (proj2 (proj2 (proj2 (proj2 (bellman_nil P lws)))) word word_frag). Qed.

Theorem fits_optimal_fit_gen P o first p :
  SplitterOK custom_sp -> o_alg o = OptimalFit P -> 0 < p_nline P ->
  TrimOK o first p -> Additive o first p ->
  dw cw (trim_end_sp p) + dw cw (if first then o_ii o else o_si o) <= o_width o ->
  slow_path cw alnum lbc custom_sp ofit_dp o first p = Some [one_line o first p].
Proof.
  intros HS Halg Hnl HT Hadd Hfit.
  apply slow_path_one_line; [exact HS|exact HT|].
  intros bws E. rewrite Halg. cbn [run_alg]. unfold ofit_dp.
  destruct bws as [|w0 bws'] eqn:Eb; [apply optimal_fit_nil|]. rewrite <- Eb in *.
  assert (Hne : bws <> []) by (rewrite Eb; discriminate).
  destruct (pipeline_words_room o first p bws HS E) as [R1 _].
  unfold line_widths. apply optimal_fit_fits_gen; [exact Hnl| |exact R1|exact Hne].
  rewrite (Hadd bws E). destruct first; lia.
Qed.

(* the target as stated: default penalties (no PenOK hypothesis is needed here: the
   last fragment never carries a penalty, and that is all optimal-fit looks at) *)
Theorem fits_optimal_fit o first p :
  SplitterOK custom_sp -> o_alg o = OptimalFit default_penalties ->
  TrimOK o first p -> Additive o first p ->
  dw cw (trim_end_sp p) + dw cw (if first then o_ii o else o_si o) <= o_width o ->
  slow_path cw alnum lbc custom_sp ofit_dp o first p = Some [one_line o first p].
Proof.
  intros HS Halg. apply (fits_optimal_fit_gen default_penalties); [exact HS|exact Halg|reflexivity].
Qed.

(* ================================================================== *)
(* F4: (C05 b) the shortcut of wrap_single_line is unobservable         *)
(* ================================================================== *)

Hypothesis cw_le : forall c, cw c <= utf8_len c.

Lemma tot_le_blen ws : Forall (fun w => w_width w = dw cw (w_word w)) ws ->
  tot ws <= blen (gtext ws).
Proof.
  induction 1 as [|x r Hx _ IH]; [rewrite tot_nil; cbn; lia|].
  rewrite tot_cons, gtext_cons, !SplitBreak.blen_app. unfold wcost. rewrite Hx.
  pose proof (dw_le_blen cw cw_le (w_word x)). lia.
Qed.

(* no additivity needed: every test of either algorithm is bounded by the byte length *)
Lemma room_prefixes bws : Forall (fun w => w_width w = dw cw (w_word w)) bws -> pen_room bws ->
  forall a x b, bws = a ++ x :: b -> tot a + w_width x + blen (w_pen x) <= blen (gtext bws).
Proof.
  intros Hw Hroom a x b E.
  pose proof (pen_room_spec bws Hroom a x b E) as Hp.
  rewrite E in Hw |- *. apply Forall_app in Hw. destruct Hw as [Ha Hxb].
  inversion Hxb as [|x0 b0 Hx _]; subst x0 b0.
  rewrite gtext_app, gtext_cons, !SplitBreak.blen_app.
  pose proof (tot_le_blen a Ha). pose proof (dw_le_blen cw cw_le (w_word x)). lia.
Qed.

Lemma shortcut_prefixes o first p bws : SplitterOK custom_sp -> pwords o first p = Some bws ->
  forall a x b, bws = a ++ x :: b -> tot a + w_width x + blen (w_pen x) <= blen p.
Proof.
  intros HS E.
  destruct (pipeline_words_spec cw alnum lbc custom_sp o first p HS) as [bws' [E1 [E2 [_ [_ P3]]]]].
  rewrite E in E1. injection E1 as <-.
  destruct (pipeline_words_room o first p bws HS E) as [_ [R2 _]].
  rewrite <- E2. exact (room_prefixes bws P3 R2).
Qed.

Lemma first_width_noindent o (first : bool) : (if first then o_ii o else o_si o) = [] ->
  line_widths cw o first = [o_width o; o_width o - dw cw (o_si o)].
Proof.
  intros Hi. unfold line_widths. destruct first; rewrite ?Hi; change (dw cw []) with 0;
    rewrite N.sub_0_r; reflexivity.
Qed.

(* the slow path, whenever the shortcut would have been taken *)
Theorem shortcut_slow_first_fit ofit o first p :
  SplitterOK custom_sp -> o_alg o = FirstFit -> TrimOK o first p ->
  blen p < o_width o -> (if first then o_ii o else o_si o) = [] ->
  slow_path cw alnum lbc custom_sp ofit o first p = Some [one_line o first p].
Proof.
  intros HS Halg HT Hlen Hind.
  apply slow_path_one_line; [exact HS|exact HT|].
  intros bws E. rewrite Halg. cbn [run_alg]. f_equal.
  rewrite (first_width_noindent o first Hind), first_fit_ffr.
  rewrite (ffr_fits (map Z.of_N [o_width o; o_width o - dw cw (o_si o)]) (o_width o) eq_refl bws [] 0%Z);
    [reflexivity|reflexivity|].
  intros a x b Eab _. cbn [app].
  pose proof (shortcut_prefixes o first p bws HS E a x b Eab). lia.
Qed.

Theorem shortcut_slow_optimal_fit P o first p :
  SplitterOK custom_sp -> o_alg o = OptimalFit P -> TrimOK o first p ->
  blen p < o_width o -> (if first then o_ii o else o_si o) = [] ->
  slow_path cw alnum lbc custom_sp ofit_dp o first p = Some [one_line o first p].
Proof.
  intros HS Halg HT Hlen Hind.
  apply slow_path_one_line; [exact HS|exact HT|].
  intros bws E. rewrite Halg. cbn [run_alg]. unfold ofit_dp.
  destruct bws as [|w0 bws'] eqn:Eb; [apply optimal_fit_nil|]. rewrite <- Eb in *.
  assert (Hne : bws <> []) by (rewrite Eb; discriminate).
  destruct (pipeline_words_room o first p bws HS E) as [R1 _].
  rewrite (first_width_noindent o first Hind).
  apply optimal_fit_slack; [|exact R1|exact Hne].
  intros a x b Eab. pose proof (shortcut_prefixes o first p bws HS E a x b Eab). lia.
Qed.

Lemma shortcut_taken ofit o (first : bool) p :
  blen p < o_width o -> (if first then o_ii o else o_si o) = [] ->
  wrap_single_line cw alnum lbc custom_sp ofit o first p =
  Some [mkLine (trim_end_sp p) (Borrowed 0)].
Proof.
  intros Hlen Hind. unfold wrap_single_line. rewrite Hind.
  destruct (N.ltb_spec (blen p) (o_width o)) as [_|Hge]; [reflexivity|lia].
Qed.

Lemma one_line_noindent o (first : bool) p : (if first then o_ii o else o_si o) = [] -> p <> [] ->
  one_line o first p = mkLine (trim_end_sp p) (Borrowed 0).
Proof.
  intros Hind Hp. unfold one_line. rewrite Hind. destruct p; [congruence|reflexivity].
Qed.

(* (C05 b) first-fit, any optimal-fit oracle *)
Theorem shortcut_unobservable_first_fit ofit o first p :
  SplitterOK custom_sp -> o_alg o = FirstFit -> TrimOK o first p ->
  blen p < o_width o -> (if first then o_ii o else o_si o) = [] -> p <> [] ->
  wrap_single_line cw alnum lbc custom_sp ofit o first p =
  slow_path cw alnum lbc custom_sp ofit o first p.
Proof.
  intros HS Halg HT Hlen Hind Hp.
  rewrite (shortcut_taken ofit o first p Hlen Hind).
  rewrite (shortcut_slow_first_fit ofit o first p HS Halg HT Hlen Hind).
  rewrite (one_line_noindent o first p Hind Hp). reflexivity.
Qed.

(* (C05 b) optimal-fit, the reference oracle, ARBITRARY penalties *)
Theorem shortcut_unobservable_optimal_fit P o first p :
  SplitterOK custom_sp -> o_alg o = OptimalFit P -> TrimOK o first p ->
  blen p < o_width o -> (if first then o_ii o else o_si o) = [] -> p <> [] ->
  wrap_single_line cw alnum lbc custom_sp ofit_dp o first p =
  slow_path cw alnum lbc custom_sp ofit_dp o first p.
Proof.
  intros HS Halg HT Hlen Hind Hp.
  rewrite (shortcut_taken ofit_dp o first p Hlen Hind).
  rewrite (shortcut_slow_optimal_fit P o first p HS Halg HT Hlen Hind).
  rewrite (one_line_noindent o first p Hind Hp). reflexivity.
Qed.

(* without any side condition on the paragraph (the empty one included), for every
   width and indentation: the TEXT of the lines is the same; see
   [shortcut_cow_differs_on_empty] for the Cow of the empty paragraph *)
Definition texts (r : option (list oline)) : option (list str) :=
  match r with Some ls => Some (map l_text ls) | None => None end.

Lemma shortcut_texts_gen ofit o (first : bool) p :
  (blen p < o_width o -> (if first then o_ii o else o_si o) = [] ->
   slow_path cw alnum lbc custom_sp ofit o first p = Some [one_line o first p]) ->
  texts (wrap_single_line cw alnum lbc custom_sp ofit o first p) =
  texts (slow_path cw alnum lbc custom_sp ofit o first p).
Proof.
  intros H. unfold wrap_single_line.
  destruct ((blen p <? o_width o) && negb (nonempty (if first then o_ii o else o_si o))) eqn:Ec;
    [|reflexivity].
  apply andb_true_iff in Ec. destruct Ec as [E1 E2]. apply N.ltb_lt in E1.
  assert (Hind : (if first then o_ii o else o_si o) = []).
  { destruct (if first then o_ii o else o_si o); [reflexivity|discriminate]. }
  rewrite (H E1 Hind). unfold one_line. rewrite Hind. reflexivity.
Qed.

Theorem shortcut_texts_first_fit ofit o first p :
  SplitterOK custom_sp -> o_alg o = FirstFit -> TrimOK o first p ->
  texts (wrap_single_line cw alnum lbc custom_sp ofit o first p) =
  texts (slow_path cw alnum lbc custom_sp ofit o first p).
Proof.
  intros HS Halg HT. apply shortcut_texts_gen. intros Hlen Hind.
  exact (shortcut_slow_first_fit ofit o first p HS Halg HT Hlen Hind).
Qed.

Theorem shortcut_texts_optimal_fit P o first p :
  SplitterOK custom_sp -> o_alg o = OptimalFit P -> TrimOK o first p ->
  texts (wrap_single_line cw alnum lbc custom_sp ofit_dp o first p) =
  texts (slow_path cw alnum lbc custom_sp ofit_dp o first p).
Proof.
  intros HS Halg HT. apply shortcut_texts_gen. intros Hlen Hind.
  exact (shortcut_slow_optimal_fit P o first p HS Halg HT Hlen Hind).
Qed.

(* ================================================================== *)
(* F5: (C05 c) the shortcut of fill is unobservable                     *)
(* ================================================================== *)

Theorem fill_shortcut_unobservable ofit o t :
  fill cw alnum lbc custom_sp ofit o t = fill_slow cw alnum lbc custom_sp ofit o t.
Proof. rewrite fill_is_join. reflexivity. Qed.

(* ... and neither shortcut is: [wrap_slow] is [wrap] with [slow_path] in place of
   [wrap_single_line]; [fill] is the join of its lines *)
Fixpoint wrap_loop_slow ofit (o : options) (paras : list str) (acc : list oline) (base : N)
  : option (list oline) :=
  match paras with
  | [] => Some acc
  | p :: r =>
      match slow_path cw alnum lbc custom_sp ofit o (match acc with [] => true | _ => false end) p with
      | None => None
      | Some ls => wrap_loop_slow ofit o r (acc ++ map (shift_cow base) ls)
                                  (base + blen p + blen (le_str (o_le o)))
      end
  end.
Definition wrap_slow ofit (o : options) (text : str) : option (list oline) :=
  wrap_loop_slow ofit o (split_le (o_le o) text) [] 0.

Lemma wrap_loop_slow_texts ofit o :
  (forall first p, texts (wrap_single_line cw alnum lbc custom_sp ofit o first p) =
                   texts (slow_path cw alnum lbc custom_sp ofit o first p)) ->
  forall paras acc acc' base, map l_text acc = map l_text acc' ->
  texts (wrap_loop cw alnum lbc custom_sp ofit o paras acc base) =
  texts (wrap_loop_slow ofit o paras acc' base).
Proof.
  intros Hp. induction paras as [|p r IH]; intros acc acc' base Hacc; cbn [wrap_loop wrap_loop_slow].
  - cbn [texts]. rewrite Hacc. reflexivity.
  - assert (Hf : match acc with [] => true | _ => false end = match acc' with [] => true | _ => false end).
    { destruct acc, acc'; try reflexivity; discriminate. }
    rewrite <- Hf. specialize (Hp (match acc with [] => true | _ => false end) p).
    destruct (wrap_single_line cw alnum lbc custom_sp ofit o _ p) as [ls|];
      destruct (slow_path cw alnum lbc custom_sp ofit o _ p) as [ls'|]; cbn [texts] in Hp;
      try discriminate; [|reflexivity].
    injection Hp as Hp. apply IH.
    rewrite !map_app, !map_shift_cow_text, Hacc, Hp. reflexivity.
Qed.

Theorem wrap_shortcut_texts_first_fit ofit o t :
  SplitterOK custom_sp -> o_alg o = FirstFit -> (forall first p, TrimOK o first p) ->
  texts (wrap cw alnum lbc custom_sp ofit o t) = texts (wrap_slow ofit o t).
Proof.
  intros HS Halg HT. unfold wrap, wrap_slow. apply wrap_loop_slow_texts; [|reflexivity].
  intros first p. apply shortcut_texts_first_fit; [exact HS|exact Halg|apply HT].
Qed.

Theorem wrap_shortcut_texts_optimal_fit P o t :
  SplitterOK custom_sp -> o_alg o = OptimalFit P -> (forall first p, TrimOK o first p) ->
  texts (wrap cw alnum lbc custom_sp ofit_dp o t) = texts (wrap_slow ofit_dp o t).
Proof.
  intros HS Halg HT. unfold wrap, wrap_slow. apply wrap_loop_slow_texts; [|reflexivity].
  intros first p. apply (shortcut_texts_optimal_fit P); [exact HS|exact Halg|apply HT].
Qed.

(* [fill] computed without any shortcut: reference oracle, either algorithm *)
Theorem fill_no_shortcut o t :
  SplitterOK custom_sp -> (forall first p, TrimOK o first p) ->
  fill cw alnum lbc custom_sp ofit_dp o t =
  match wrap_slow ofit_dp o t with
  | Some ls => Some (join (le_str (o_le o)) (map l_text ls))
  | None => None
  end.
Proof.
  intros HS HT. rewrite fill_is_join.
  assert (H : texts (wrap cw alnum lbc custom_sp ofit_dp o t) = texts (wrap_slow ofit_dp o t)).
  { destruct (o_alg o) as [|P] eqn:Ea.
    - apply wrap_shortcut_texts_first_fit; assumption.
    - apply (wrap_shortcut_texts_optimal_fit P); assumption. }
  destruct (wrap cw alnum lbc custom_sp ofit_dp o t) as [ls|];
    destruct (wrap_slow ofit_dp o t) as [ls'|]; cbn [texts] in H; try discriminate; [|reflexivity].
  injection H as H. rewrite H. reflexivity.
Qed.

(* ================================================================== *)
(* Where the hypotheses come from                                       *)
(* ================================================================== *)

(* ---- PenOK holds for the built-in splitters: they insert no hyphen ---- *)

Lemma ends_with_hy u c : ends_with (u ++ [c; HY]) [HY] = true.
Proof.
  unfold ends_with. rewrite rev_app_distr. cbn [rev app starts_with].
  change (HY =? HY) with true. reflexivity.
Qed.

Lemma sw_loop_nopen w pts :
  (forall idx pre, In idx pts -> bslice (w_word w) 0 idx = Some pre -> ends_with pre [HY] = true) ->
  w_pen w = [] ->
  forall prev ps, sw_loop cw w pts prev = Some ps -> Forall (fun x => w_pen x = []) ps.
Proof.
  intros Hpts Hpen. induction pts as [|idx r IH]; intros prev ps H; cbn [sw_loop] in H.
  - destruct ((prev <? blen (w_word w)) || (prev =? 0)).
    + destruct (bdrop (w_word w) prev) as [piece|]; [|discriminate].
      injection H as <-. constructor; [exact Hpen|constructor].
    + injection H as <-. constructor.
  - destruct (bslice (w_word w) 0 idx) as [pre|] eqn:Epre; [|discriminate].
    destruct (bslice (w_word w) prev idx) as [piece|]; [|discriminate].
    destruct (sw_loop cw w r idx) as [rest|] eqn:E; [|discriminate].
    injection H as <-. constructor.
    + cbn [w_pen]. rewrite (Hpts idx pre (or_introl eq_refl) Epre). reflexivity.
    + apply (IH (fun i q Hi => Hpts i q (or_intror Hi)) idx rest E).
Qed.

Lemma builtin_points_hy k w idx pre : k <> SplCustom ->
  In idx (split_points alnum custom_sp k w) -> bslice w 0 idx = Some pre ->
  ends_with pre [HY] = true.
Proof.
  intros Hk Hin Hpre. destruct k; cbn [split_points] in Hin; [contradiction| |congruence].
  apply hyphen_points_spec in Hin.
  destruct Hin as (u & c1 & c2 & post & E & _ & _ & Ho).
  destruct (bslice_some _ _ _ _ Hpre) as [p0 [q [Ew [Hp0 Hl]]]].
  apply blen_nil_iff in Hp0. subst p0. cbn [app] in Ew, Hl.
  assert (E' : pre ++ q = (u ++ [c1; HY]) ++ c2 :: post).
  { rewrite <- Ew, E, <- app_assoc. reflexivity. }
  destruct (blen_prefix_unique pre q _ _ E') as [-> _]; [lia|].
  apply ends_with_hy.
Qed.

Lemma split_words_nopen k : k <> SplCustom -> forall ws ps,
  Forall (fun x => w_pen x = []) ws ->
  split_words cw (split_points alnum custom_sp k) ws = Some ps ->
  Forall (fun x => w_pen x = []) ps.
Proof.
  intros Hk. induction ws as [|w r IH]; intros ps Hws H; cbn [split_words] in H.
  - injection H as <-. constructor.
  - inversion Hws as [|w0 r0 Hw Hr]; subst w0 r0.
    destruct (sw_loop cw w (split_points alnum custom_sp k (w_word w)) 0) as [a|] eqn:Ea; [|discriminate].
    destruct (split_words cw (split_points alnum custom_sp k) r) as [b|] eqn:Eb; [|discriminate].
    injection H as <-. apply Forall_app. split; [|exact (IH b Hr eq_refl)].
    apply (sw_loop_nopen w _ (fun idx pre => builtin_points_hy k (w_word w) idx pre Hk) Hw 0 a Ea).
Qed.

Lemma break_words_nopen lim : forall ws, Forall (fun x => w_pen x = []) ws ->
  Forall (fun x => w_pen x = []) (break_words cw lim ws).
Proof.
  induction ws as [|w r IH]; intros Hws; [constructor|].
  inversion Hws as [|w0 r0 Hw Hr]; subst w0 r0.
  unfold break_words. cbn [flat_map]. apply Forall_app. split; [|exact (IH Hr)].
  destruct (lim <? w_width w); [|constructor; [exact Hw|constructor]].
  destruct (break_apart_cases cw lim w) as [[E _]|[init [l [E [Hi [_ Hl]]]]]]; rewrite E.
  - constructor.
  - apply Forall_app. split.
    + eapply Forall_impl; [|exact Hi]. intros x [_ Hx]. exact Hx.
    + constructor; [rewrite Hl; exact Hw|constructor].
Qed.

Theorem pipeline_nopen_builtin o first p bws : o_spl o <> SplCustom ->
  pwords o first p = Some bws -> Forall (fun x => w_pen x = []) bws.
Proof.
  intros Hk H. unfold pipeline_words in H.
  destruct (split_words cw (split_points alnum custom_sp (o_spl o)) (find_words cw lbc (o_sep o) p))
    as [sws|] eqn:Es; [|discriminate].
  destruct (find_words_spec cw lbc (o_sep o) p) as [_ Hok].
  assert (Hfw : Forall (fun x => w_pen x = []) (find_words cw lbc (o_sep o) p)).
  { eapply Forall_impl; [|exact Hok]. intros w [_ [_ [H3 _]]]. exact H3. }
  pose proof (split_words_nopen (o_spl o) Hk _ sws Hfw Es) as Hs.
  injection H as <-. destruct (o_bw o); [|exact Hs].
  pose proof (break_words_nopen (o_width o - dw cw (o_si o)) sws Hs) as Hb.
  destruct (nonempty (if first then o_ii o else o_si o)); [|exact Hb].
  constructor; [reflexivity|exact Hb].
Qed.

Lemma nopen_PenOK bws : Forall (fun x => w_pen x = []) bws -> PenOK bws.
Proof.
  intros H. split.
  - intros a x y b E. rewrite E in H. apply Forall_app in H. destruct H as [_ H].
    inversion H as [|x0 r0 Hx _]; subst. rewrite Hx. change (blen []) with 0. lia.
  - destruct bws as [|w0 r] eqn:Eb; [reflexivity|]. rewrite <- Eb in *.
    assert (Hne : bws <> []) by (rewrite Eb; discriminate).
    destruct (exists_last Hne) as [init [lw E]]. rewrite E in H |- *.
    rewrite lastw_pen_snoc. apply Forall_app in H. destruct H as [_ H].
    inversion H; assumption.
Qed.

Theorem PenOK_builtin o first p bws : o_spl o <> SplCustom ->
  pwords o first p = Some bws -> PenOK bws.
Proof. intros Hk H. apply nopen_PenOK. exact (pipeline_nopen_builtin o first p bws Hk H). Qed.

(* ---- Additive holds when no fragment boundary falls inside an escape sequence ---- *)

(* (the negation of this is finding D6, "CutInsideEscape") *)
Definition TopLevelCuts (bws : list word) : Prop :=
  Forall (fun w => final_state Normal (w_word w) = Normal) bws.

Lemma sp_run s : cw SP = 1 -> allsp s -> final_state Normal s = Normal /\ dw cw s = blen s.
Proof.
  intros Hsp. induction 1 as [|c r Hc _ [IH1 IH2]]; [split; reflexivity|]. subst c.
  unfold dw in *. cbn [final_state dw_from blen step]. change (SP =? ESC) with false.
  cbn [fst]. split; [exact IH1|]. rewrite IH2, Hsp. reflexivity.
Qed.

Lemma gtext_top g : cw SP = 1 -> TopLevelCuts g ->
  Forall (fun w => allsp (w_ws w)) g -> Forall (fun w => w_width w = dw cw (w_word w)) g ->
  final_state Normal (gtext g) = Normal /\ dw cw (gtext g) = tot g.
Proof.
  intros Hsp Ht Hs Hw. induction g as [|x g IH]; [split; reflexivity|].
  inversion Ht as [|x0 g0 Tx Tg]; subst x0 g0.
  inversion Hs as [|x0 g0 Sx Sg]; subst x0 g0.
  inversion Hw as [|x0 g0 Wx Wg]; subst x0 g0.
  destruct (IH Tg Sg Wg) as [IH1 IH2]. destruct (sp_run (w_ws x) Hsp Sx) as [S1 S2].
  rewrite gtext_cons. split.
  - rewrite !final_state_app, Tx, S1. exact IH1.
  - rewrite (dw_cut cw _ _ Tx), (dw_cut cw _ _ S1), IH2, S2, tot_cons. unfold wcost. lia.
Qed.

Lemma computed_width_top g : cw SP = 1 -> TopLevelCuts g ->
  Forall (fun w => allsp (w_ws w)) g -> Forall (fun w => w_width w = dw cw (w_word w)) g ->
  computed_width g = dw cw (body g).
Proof.
  intros Hsp Ht Hs Hw. destruct g as [|x g'] eqn:Eg; [reflexivity|]. rewrite <- Eg in *.
  assert (Hne : g <> []) by (rewrite Eg; discriminate).
  destruct (exists_last Hne) as [init [lw E]]. rewrite E in *.
  apply Forall_app in Ht, Hs, Hw. destruct Ht as [Ht _], Hs as [Hs _], Hw as [Hw Hl].
  inversion Hl as [|x0 r0 Wl _]; subst x0 r0.
  destruct (gtext_top init Hsp Ht Hs Hw) as [G1 G2].
  rewrite computed_width_snoc, body_snoc, (dw_cut cw _ _ G1), G2, Wl. reflexivity.
Qed.

Lemma allsp_lastw_ws g : Forall (fun w => allsp (w_ws w)) g -> allsp (lastw_ws g).
Proof.
  intros H. destruct g as [|x g'] eqn:Eg; [constructor|]. rewrite <- Eg in *.
  assert (Hne : g <> []) by (rewrite Eg; discriminate).
  destruct (exists_last Hne) as [init [lw E]]. rewrite E in H |- *.
  rewrite lastw_ws_snoc. apply Forall_app in H. destruct H as [_ H]. inversion H; assumption.
Qed.

Lemma body_is_trim o first p bws : SplitterOK custom_sp -> TrimOK o first p ->
  pwords o first p = Some bws -> body bws = trim_end_sp p.
Proof.
  intros HS HT E.
  destruct (pipeline_words_spec cw alnum lbc custom_sp o first p HS) as [bws' [E1 [E2 [P1 _]]]].
  rewrite E in E1. injection E1 as <-.
  rewrite <- E2. symmetry. apply body_trim; [|exact (HT bws E)].
  apply allsp_lastw_ws. exact P1.
Qed.

Theorem Additive_top_level o first p : SplitterOK custom_sp -> cw SP = 1 -> TrimOK o first p ->
  (forall bws, pwords o first p = Some bws -> TopLevelCuts bws) -> Additive o first p.
Proof.
  intros HS Hsp HT Htop bws E.
  destruct (pipeline_words_spec cw alnum lbc custom_sp o first p HS) as [bws' [E1 [_ [P1 [_ P3]]]]].
  rewrite E in E1. injection E1 as <-.
  rewrite (computed_width_top bws Hsp (Htop bws E) P1 P3).
  rewrite (body_is_trim o first p bws HS HT E). reflexivity.
Qed.

(* C05 (a) with the concrete hypotheses: built-in splitter, ASCII separator, no
   fragment boundary inside an escape sequence; first-fit or optimal-fit with the default
   penalties (reference oracle) *)
Theorem fits_builtin o first p :
  SplitterOK custom_sp -> cw SP = 1 -> o_spl o <> SplCustom -> o_sep o = SepAscii ->
  (o_alg o = FirstFit \/ o_alg o = OptimalFit default_penalties) ->
  (forall bws, pwords o first p = Some bws -> TopLevelCuts bws) ->
  dw cw (trim_end_sp p) + dw cw (if first then o_ii o else o_si o) <= o_width o ->
  slow_path cw alnum lbc custom_sp ofit_dp o first p = Some [one_line o first p].
Proof.
  intros HS Hsp Hspl Hsep Halg Htop Hfit.
  pose proof (TrimOK_ascii o first p HS Hsep) as HT.
  pose proof (Additive_top_level o first p HS Hsp HT Htop) as Hadd.
  destruct Halg as [Halg|Halg].
  - apply fits_first_fit; try assumption.
    intros bws E. exact (PenOK_builtin o first p bws Hspl E).
  - apply fits_optimal_fit; assumption.
Qed.

(* ---- TrimOK for the Unicode separator: a property of the line-break oracle ---- *)

(* UAX 14, rule LB7: there is no break opportunity before a space -- in particular
   none between two spaces.  Only the latter is needed. *)
Definition NoBreakBetweenSpaces (stripped : str) (opps : list N) : Prop :=
  forall u v, stripped = u ++ SP :: SP :: v -> ~ In (blen u + 1) opps.

(* the last piece is a suffix of the text and the pieces before it are the matching
   prefix; the cut between them is one of the cut positions (or there is none) *)
Lemma pieces_snoc : forall cuts start t init lp,
  ForallOrdPairs lt cuts -> Forall (le start) cuts ->
  pieces cuts start t = init ++ [lp] ->
  exists k, (k = 0%nat \/ In (start + k)%nat cuts) /\ concat init = firstn k t /\ lp = skipn k t.
Proof.
  induction cuts as [|p r IH]; intros start t init lp Hinc Hle H; cbn [pieces] in H.
  - exists 0%nat. destruct t as [|c t']; [destruct init; discriminate|].
    destruct init as [|x init']; [|destruct init'; discriminate].
    injection H as <-. split; [left; reflexivity|]. split; reflexivity.
  - inversion Hinc as [|p0 r0 Hpr Hincr]; subst p0 r0.
    inversion Hle as [|p0 r0 Hsp Hler]; subst p0 r0.
    destruct init as [|x init'].
    + cbn [app] in H. injection H as H1 H2.
      exists 0%nat. split; [left; reflexivity|]. split; [reflexivity|].
      cbn [skipn]. rewrite <- H1.
      assert (Ht' : skipn (p - start) t = []).
      { pose proof (pieces_concat r p (skipn (p - start) t)) as Hc. rewrite H2 in Hc.
        symmetry. exact Hc. }
      rewrite <- (firstn_skipn (p - start) t) at 2. rewrite Ht', app_nil_r. reflexivity.
    + cbn [app] in H. injection H as H1 H2.
      destruct (IH p (skipn (p - start) t) init' lp Hincr) as [k' [Hk' [Hc Hl]]].
      * eapply Forall_impl; [|exact Hpr]. intros a Ha. cbv beta in Ha. lia.
      * exact H2.
      * exists ((p - start) + k')%nat. split; [|split].
        -- right. replace (start + (p - start + k'))%nat with (p + k')%nat by lia.
           destruct Hk' as [->|Hin]; [left; lia|right; exact Hin].
        -- cbn [concat]. rewrite <- H1, Hc. symmetry. apply firstn_add.
        -- rewrite Hl. symmetry. apply skipn_add.
Qed.

Lemma gtext_word_from ps : gtext (map (word_from cw) ps) = concat ps.
Proof.
  induction ps as [|a ps IH]; [reflexivity|]. cbn [map concat].
  rewrite gtext_cons, IH, app_assoc. f_equal. exact (proj1 (word_from_spec cw a)).
Qed.

Lemma strip_allsp s : allsp s -> strip_from Normal s = s.
Proof.
  induction 1 as [|c r Hc _ IH]; [reflexivity|]. subst c.
  cbn [strip_from step]. change (SP =? ESC) with false. cbn iota. rewrite IH. reflexivity.
Qed.

Lemma step_sp_normal s : fst (step s SP) = Normal -> s = Normal \/ s = AfterEsc.
Proof.
  destruct s as [| | |l]; [left; reflexivity|right; reflexivity| |]; intros H; exfalso.
  - cbn in H. discriminate.
  - cbn in H. destruct l; discriminate.
Qed.

Lemma final_afteresc u : final_state Normal u = AfterEsc ->
  exists u', u = u' ++ [ESC] /\ final_state Normal u' = Normal.
Proof.
  intros H. destruct u as [|c0 u0] eqn:Eu; [discriminate|]. rewrite <- Eu in *.
  assert (Hne : u <> []) by (rewrite Eu; discriminate).
  destruct (exists_last Hne) as [u' [c E]]. rewrite E in H |- *.
  rewrite final_state_app in H. cbn [final_state] in H.
  destruct (final_state Normal u') as [| | |l] eqn:Es; cbn [step] in H.
  - destruct (N.eqb_spec c ESC) as [->|_]; [|discriminate]. exists u'. split; [reflexivity|exact Es].
  - destruct (c =? LBRACK); [discriminate|]. destruct (c =? RBRACK); discriminate.
  - destruct (is_final c); discriminate.
  - destruct ((c =? BEL) || (c =? BSLASH) && l); discriminate.
Qed.

Lemma Forall2_In_l {A B} (R : A -> B -> Prop) l1 l2 a :
  Forall2 R l1 l2 -> In a l1 -> exists b, In b l2 /\ R a b.
Proof.
  induction 1 as [|x y l1 l2 Hxy _ IH]; intros Hin; [contradiction|].
  destruct Hin as [<-|Hin].
  - exists y. split; [left; reflexivity|exact Hxy].
  - destruct (IH Hin) as [b [Hb Hr]]. exists b. split; [right; exact Hb|exact Hr].
Qed.

Theorem unicode_body_no_trailing line :
  OracleOK (strip line) (lbc (strip line)) ->
  NoBreakBetweenSpaces (strip line) (lbc (strip line)) ->
  no_trailing_sp (body (find_words_unicode cw lbc line)).
Proof.
  intros Hok Hnb. unfold find_words_unicode. cbv zeta.
  pose proof (unicode_cuts_found line _ Hok) as Hfound. cbv zeta in Hfound.
  pose proof (unicode_cuts_top line _ Hok) as Htop. cbv zeta in Htop.
  destruct (unicode_cuts_core line _ Hok) as [_ [_ Hle0]].
  set (kept := filter (keep_opportunity (strip line)) (lbc (strip line))) in *.
  set (cuts := cut_positions kept (idx_map line)) in *.
  destruct Hfound as [_ [Hinc Hlt]].
  destruct (pieces cuts 0 line) as [|x0 ps0] eqn:Eps; [exact no_trailing_nil|].
  assert (Hne : x0 :: ps0 <> []) by discriminate.
  destruct (exists_last Hne) as [init [lp E]]. rewrite E in Eps. rewrite E. clear E Hne x0 ps0.
  rewrite map_app. cbn [map]. rewrite body_snoc, gtext_word_from.
  pose proof (word_from_spec cw lp) as HW. cbv zeta in HW. destruct HW as [W1 [W2 [W3 _]]].
  destruct (w_word (word_from cw lp)) as [|c0 w0] eqn:Ew.
  2:{ apply no_trailing_app; [discriminate|exact W3]. }
  rewrite app_nil_r. cbn [app] in W1.
  destruct (pieces_snoc cuts 0 line init lp Hinc Hle0 Eps) as [k [Hk [Hc Hl]]].
  rewrite Hc. destruct Hk as [->|Hin]; [exact no_trailing_nil|]. cbn [Nat.add] in Hin.
  intros u Eu.
  (* k is a cut position: top level, first position of its offset, inside the line *)
  assert (Hkl : (k < length line)%nat).
  { rewrite Forall_forall in Hlt. exact (Hlt k Hin). }
  destruct (Forall2_In_l _ _ _ k Htop Hin) as [o [Ho [F1 [F2 F3]]]].
  assert (Hoin : In o (lbc (strip line))).
  { unfold kept in Ho. apply filter_In in Ho. exact (proj1 Ho). }
  (* the last piece is a non-empty run of spaces *)
  assert (Hlp : allsp lp) by (rewrite <- W1; exact W2).
  destruct lp as [|c lp'].
  { exfalso. apply (f_equal (@length char)) in Hl. rewrite skipn_length in Hl.
    cbn [length] in Hl. lia. }
  inversion Hlp as [|c1 r1 Hc1 Hlp']; subst c1 r1. subst c.
  assert (Eline : line = (u ++ [SP]) ++ SP :: lp').
  { rewrite <- Eu, Hl. symmetry. apply firstn_skipn. }
  rewrite Eu in F1, F2.
  pose proof F1 as F1'. rewrite final_state_app in F1'. cbn [final_state] in F1'.
  destruct (step_sp_normal _ F1') as [Hs|Hs].
  - (* the space before the cut is visible: a break between two spaces *)
    assert (Es : strip line = strip u ++ SP :: SP :: lp').
    { rewrite Eline. unfold strip. rewrite strip_from_app, F1, strip_from_app, Hs.
      cbn [strip_from step]. change (SP =? ESC) with false. cbn iota.
      rewrite (strip_allsp lp' Hlp'), <- app_assoc. reflexivity. }
    apply (Hnb (strip u) lp' Es).
    replace (blen (strip u) + 1) with o; [exact Hoin|].
    rewrite <- F2. unfold strip. rewrite strip_from_app, Hs.
    cbn [strip_from step]. change (SP =? ESC) with false. cbn iota.
    rewrite SplitBreak.blen_app. reflexivity.
  - (* the space before the cut was swallowed by an ESC: then the position of that ESC
       is an earlier top-level position with the same offset *)
    destruct (final_afteresc u Hs) as [u' [Eu' Hu']].
    assert (Hp' : (length u' < k)%nat).
    { apply (f_equal (@length char)) in Eu. rewrite firstn_length, Eu', !app_length in Eu.
      cbn [length] in Eu. lia. }
    assert (Ef : firstn (length u') line = u').
    { rewrite Eline, Eu', <- !app_assoc. apply firstn_length_app. }
    pose proof (F3 (length u') Hp') as F3'. rewrite Ef in F3'. specialize (F3' Hu').
    rewrite Eu' in F2. unfold strip in F2, F3'.
    rewrite <- app_assoc, strip_from_app, Hu' in F2. cbn in F2. rewrite app_nil_r in F2. lia.
Qed.

Theorem TrimOK_unicode o first p : SplitterOK custom_sp -> o_sep o = SepUnicode ->
  OracleOK (strip p) (lbc (strip p)) -> NoBreakBetweenSpaces (strip p) (lbc (strip p)) ->
  TrimOK o first p.
Proof.
  intros HS Hsep Hok Hnb. apply TrimOK_found; [exact HS|]. rewrite Hsep. cbn [find_words].
  exact (unicode_body_no_trailing p Hok Hnb).
Qed.

(* both separators at once *)
Corollary TrimOK_sep o first p : SplitterOK custom_sp ->
  (o_sep o = SepUnicode ->
   OracleOK (strip p) (lbc (strip p)) /\ NoBreakBetweenSpaces (strip p) (lbc (strip p))) ->
  TrimOK o first p.
Proof.
  intros HS H. destruct (o_sep o) eqn:Es.
  - apply TrimOK_ascii; assumption.
  - destruct (H eq_refl) as [H1 H2]. apply TrimOK_unicode; assumption.
Qed.

End Fit.

(* ================================================================== *)
(* Counterexamples recorded                                             *)
(* ================================================================== *)

(* [TrimOK] cannot be dropped for the Unicode separator when the line-break oracle is
   arbitrary: the answer [2; 3] for "a  " satisfies [Lossless.OracleOK] (increasing
   character boundaries ending at the length) but breaks between the two spaces, which
   UAX 14 (LB7) never does.  The words are "a"+" " and ""+" "; the slow path drops only
   the whitespace of the last word and returns "a " where the shortcut returns "a". *)
Definition uni_o := mkOptions 10 LE_LF [] [] true FirstFit SepUnicode SplNone.
Example unicode_needs_TrimOK :
  slow_path pipe_cw pipe_alnum (fun _ => [2; 3]) custom3 ofit_dp uni_o true [97; 32; 32] =
    Some [mkLine [97; 32] (Borrowed 0)] /\
  wrap_single_line pipe_cw pipe_alnum (fun _ => [2; 3]) custom3 ofit_dp uni_o true [97; 32; 32] =
    Some [mkLine [97] (Borrowed 0)].
Proof. vm_compute. split; reflexivity. Qed.

Example unicode_needs_TrimOK_oracle : OracleOK (strip [97; 32; 32]) [2; 3].
Proof.
  split; [|split].
  - constructor; [|constructor; [constructor|constructor]]. constructor; [|constructor].
    reflexivity.
  - constructor; [|constructor; [|constructor]].
    + split; [reflexivity|]. exists [97; 32], [32]. split; reflexivity.
    + split; [reflexivity|]. exists [97; 32; 32], []. split; reflexivity.
  - intros _. reflexivity.
Qed.

(* for the EMPTY paragraph the two paths agree on the text but not on the Cow: the
   shortcut borrows the empty slice of the input at offset 0, the slow path returns the
   static empty string (both are [Cow::Borrowed("")] in Rust) *)
Definition empty_o := mkOptions 1 LE_LF [] [] true FirstFit SepAscii SplNone.
Example shortcut_cow_differs_on_empty :
  wrap_single_line pipe_cw pipe_alnum pipe_lbc custom3 ofit_dp empty_o true [] =
    Some [mkLine [] (Borrowed 0)] /\
  slow_path pipe_cw pipe_alnum pipe_lbc custom3 ofit_dp empty_o true [] =
    Some [mkLine [] BorrowedStatic].
Proof. vm_compute. split; reflexivity. Qed.

(* ================================================================== *)
(* The reference instances                                              *)
(* ================================================================== *)

Corollary shortcut_unobservable_reference cw alnum lbc o (first : bool) p :
  (forall c, cw c <= utf8_len c) -> o_sep o = SepAscii ->
  blen p < o_width o -> (if first then o_ii o else o_si o) = [] -> p <> [] ->
  wrap_single_line cw alnum lbc custom3 ofit_dp o first p =
  slow_path cw alnum lbc custom3 ofit_dp o first p.
Proof.
  intros Hcw Hsep Hlen Hind Hp.
  pose proof (TrimOK_ascii cw alnum lbc custom3 o first p custom3_ok Hsep) as HT.
  destruct (o_alg o) as [|P] eqn:Ea.
  - apply shortcut_unobservable_first_fit; try assumption. exact custom3_ok.
  - apply (shortcut_unobservable_optimal_fit cw alnum lbc custom3 Hcw P); try assumption.
    exact custom3_ok.
Qed.

Corollary fill_no_shortcut_reference cw alnum lbc o t :
  (forall c, cw c <= utf8_len c) -> o_sep o = SepAscii ->
  fill cw alnum lbc custom3 ofit_dp o t =
  match wrap_slow cw alnum lbc custom3 ofit_dp o t with
  | Some ls => Some (join (le_str (o_le o)) (map l_text ls))
  | None => None
  end.
Proof.
  intros Hcw Hsep. apply fill_no_shortcut; [exact Hcw|exact custom3_ok|].
  intros first p. apply TrimOK_ascii; [exact custom3_ok|exact Hsep].
Qed.

(* ================================================================== *)
(* F6: non-vacuity                                                      *)
(* ================================================================== *)

(* "日本語 ab " : 13 bytes, 10 columns (9 without the trailing space), width 10 *)
Definition mb_p : str := [26085; 26412; 35486; 32; 97; 98; 32].
Definition mb_o := mkOptions 10 LE_LF [] [] true FirstFit SepAscii SplHyphen.
Definition mb_o' := mkOptions 10 LE_LF [] [] true (OptimalFit default_penalties) SepAscii SplHyphen.

Example mb_numbers : blen mb_p = 13 /\ dw ex_cw mb_p = 10 /\ dw ex_cw (trim_end_sp mb_p) = 9.
Proof. vm_compute. repeat split; reflexivity. Qed.

(* the shortcut is not taken (13 >= 10); the slow path returns the one line *)
Example mb_one_line :
  slow_path ex_cw ex_alnum pipe_lbc custom3 ofit_dp mb_o true mb_p =
    Some [mkLine [26085; 26412; 35486; 32; 97; 98] (Borrowed 0)] /\
  slow_path ex_cw ex_alnum pipe_lbc custom3 ofit_dp mb_o' true mb_p =
    Some [mkLine [26085; 26412; 35486; 32; 97; 98] (Borrowed 0)] /\
  wrap_single_line ex_cw ex_alnum pipe_lbc custom3 ofit_dp mb_o true mb_p =
    slow_path ex_cw ex_alnum pipe_lbc custom3 ofit_dp mb_o true mb_p.
Proof. vm_compute. repeat split; reflexivity. Qed.

(* the hypotheses of [fits_first_fit] are satisfiable: this is an instance *)
Example mb_additive : Additive ex_cw ex_alnum pipe_lbc custom3 mb_o true mb_p.
Proof. intros bws E. vm_compute in E. injection E as <-. vm_compute. reflexivity. Qed.

Example mb_penok : forall bws,
  pipeline_words ex_cw ex_alnum pipe_lbc custom3 mb_o true mb_p = Some bws -> PenOK bws.
Proof.
  intros bws E. vm_compute in E. injection E as <-. split; [|reflexivity].
  intros a x y b Eab. destruct a as [|a0 [|a1 a']].
  - injection Eab as <- <- _. cbn. lia.
  - injection Eab as _ _ Eab. discriminate.
  - injection Eab as _ _ Eab. destruct a'; discriminate.
Qed.

Example mb_by_theorem :
  slow_path ex_cw ex_alnum pipe_lbc custom3 ofit_dp mb_o true mb_p =
  Some [one_line mb_o true mb_p].
Proof.
  apply fits_first_fit.
  - exact custom3_ok.
  - reflexivity.
  - apply TrimOK_ascii; [exact custom3_ok|reflexivity].
  - exact mb_additive.
  - exact mb_penok.
  - vm_compute. discriminate.
Qed.

(* D6: ESC ] 8 ; ; http://my-site.com ESC \ link : 4 columns wide, but the hyphen
   splitter cuts inside the OSC sequence; the fragments' cached widths are 0 and 12 *)
Definition d6_p : str :=
  [27;93;56;59;59;104;116;116;112;58;47;47;109;121;45;115;105;116;101;46;99;111;109;27;92;
   108;105;110;107].
Definition d6_o := mkOptions 10 LE_LF [] [] true FirstFit SepAscii SplHyphen.
Definition d6_o' := mkOptions 10 LE_LF [] [] true (OptimalFit default_penalties) SepAscii SplHyphen.
Definition d6_line1 : str :=
  [27;93;56;59;59;104;116;116;112;58;47;47;109;121;45;115;105;116;101;46;99;111;109;27;92;108;105].

Example d6_fits : dw ex_cw d6_p = 4 /\ blen d6_p = 29.
Proof. vm_compute. split; reflexivity. Qed.

Example d6_not_additive : ~ Additive ex_cw ex_alnum pipe_lbc custom3 d6_o true d6_p.
Proof.
  intros H.
  assert (E : pipeline_words ex_cw ex_alnum pipe_lbc custom3 d6_o true d6_p =
              Some [mkWord [27;93;56;59;59;104;116;116;112;58;47;47;109;121;45] [] [] 0;
                    mkWord [115;105;116;101;46;99;111;109;27;92;108;105] [] [] 10;
                    mkWord [110;107] [] [] 2]) by (vm_compute; reflexivity).
  specialize (H _ E). vm_compute in H. discriminate.
Qed.

Example d6_two_lines :
  slow_path ex_cw ex_alnum pipe_lbc custom3 ofit_dp d6_o true d6_p =
    Some [mkLine d6_line1 (Borrowed 0); mkLine [110; 107] (Borrowed 27)] /\
  slow_path ex_cw ex_alnum pipe_lbc custom3 ofit_dp d6_o' true d6_p =
    Some [mkLine d6_line1 (Borrowed 0); mkLine [110; 107] (Borrowed 27)].
Proof. vm_compute. split; reflexivity. Qed.

Print Assumptions first_fit_one_line.
Print Assumptions first_fit_needs_PenOK.
Print Assumptions slow_path_needs_PenOK.
Print Assumptions optimal_fit_one_line.
Print Assumptions pipeline_words_room.
Print Assumptions optimal_fit_fits_gen.
Print Assumptions optimal_fit_fits.
Print Assumptions optimal_fit_slack.
Print Assumptions TrimOK_ascii.
Print Assumptions TrimOK_found.
Print Assumptions TrimOK_unicode.
Print Assumptions TrimOK_sep.
Print Assumptions unicode_body_no_trailing.
Print Assumptions slow_path_one_line.
Print Assumptions fits_first_fit.
Print Assumptions fits_optimal_fit_gen.
Print Assumptions fits_optimal_fit.
Print Assumptions shortcut_slow_first_fit.
Print Assumptions shortcut_slow_optimal_fit.
Print Assumptions shortcut_unobservable_first_fit.
Print Assumptions shortcut_unobservable_optimal_fit.
Print Assumptions shortcut_texts_first_fit.
Print Assumptions shortcut_texts_optimal_fit.
Print Assumptions fill_shortcut_unobservable.
Print Assumptions wrap_shortcut_texts_first_fit.
Print Assumptions wrap_shortcut_texts_optimal_fit.
Print Assumptions fill_no_shortcut.
Print Assumptions PenOK_builtin.
Print Assumptions Additive_top_level.
Print Assumptions fits_builtin.
Print Assumptions unicode_needs_TrimOK.
Print Assumptions unicode_needs_TrimOK_oracle.
Print Assumptions shortcut_cow_differs_on_empty.
Print Assumptions shortcut_unobservable_reference.
Print Assumptions fill_no_shortcut_reference.
Print Assumptions mb_numbers.
Print Assumptions mb_one_line.
Print Assumptions mb_additive.
Print Assumptions mb_penok.
Print Assumptions mb_by_theorem.
Print Assumptions d6_fits.
Print Assumptions d6_not_additive.
Print Assumptions d6_two_lines.
