(* The model's literal constants are the ones written in /repo's current source text:
   gen/SrcConsts.v is regenerated from the source by tools/gen_src_consts.py on every
   check; each lemma below is closed by computation, so a changed constant in the source
   (or a source restructured so that the constant is not found: then the generator fails)
   breaks this file and with it every property that depends on the constant. *)
From Coq Require Import NArith List Bool.
From TW Require Import Chars Esc OptFit Refill WidthTableFacts SrcConsts.
Import ListNotations.
Open Scope N_scope.

Lemma src_csi_ok : src_csi = (ESC, LBRACK).
Proof. reflexivity. Qed.

(* the CSI final-byte range, as the predicate the escape machine uses *)
Lemma src_ansi_final_ok : forall c, is_final c = (fst src_ansi_final <=? c) && (c <=? snd src_ansi_final).
Proof. intros c. reflexivity. Qed.

(* the width rule of the build without unicode-width *)
Lemma src_cutoff_ok : forall c, cw_simple c = if c <? src_double_width_cutoff then 1 else 2.
Proof. intros c. reflexivity. Qed.

(* unfill's prefix characters *)
Lemma src_prefix_chars_ok : forall c, is_prefix_char c = existsb (N.eqb c) src_prefix_chars.
Proof.
  intros c. unfold is_prefix_char, src_prefix_chars. cbn [existsb].
  rewrite orb_false_r, !orb_assoc. reflexivity.
Qed.

Lemma src_shy_ok : src_shy = SHY.
Proof. reflexivity. Qed.

Lemma src_default_penalties_ok :
  src_default_penalties =
  [p_nline default_penalties; p_overflow default_penalties; p_frac default_penalties;
   p_short default_penalties; p_hyphen default_penalties].
Proof. reflexivity. Qed.
