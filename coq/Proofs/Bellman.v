(* C03: the optimal-fit dynamic-programming recursion returns a minimum-cost arrangement
   (exact integers, [NumZ]).  Reference column minima [dp_minima] and any other
   oracle answer satisfying [ColMin]. *)
From Coq Require Import List NArith ZArith Lia Bool Arith.
From TW Require Import FirstFit OptFit.
From TW Require Import Partition.
Import ListNotations.

Arguments N.add : simpl never. Arguments N.sub : simpl never. Arguments N.mul : simpl never.
Arguments N.leb : simpl never. Arguments N.ltb : simpl never. Arguments N.eqb : simpl never.
Arguments Z.add : simpl never. Arguments Z.sub : simpl never. Arguments Z.mul : simpl never.
Arguments Z.ltb : simpl never. Arguments Z.gtb : simpl never. Arguments Z.max : simpl never.

(* ---------- generic list facts ---------- *)

Lemma last_nth_pred {X} (l : list X) (d : X) : last l d = nth (length l - 1) l d.
Proof.
  induction l as [|x l IH]; [reflexivity|].
  destruct l as [|y l']; [reflexivity|].
  change (last (x :: y :: l') d) with (last (y :: l') d). rewrite IH.
  cbn [length]. replace (S (S (length l')) - 1)%nat with (S (S (length l' ) - 1)) by lia.
  reflexivity.
Qed.

Lemma chain_le : forall rs a b, chain b a rs -> (a <= b)%nat.
Proof.
  induction rs as [|[s e] r IH]; intros a b H; cbn [chain] in H.
  - lia.
  - destruct H as [Hs [Hse Hr]]. apply IH in Hr. lia.
Qed.

Section Bellman.
Variable P : penalties.
Variable fs : list (frag NumZ).
Variable lws : list Z.

Notation n := (length fs).
Notation widths := (prefix_widths NumZ fs 0%Z).
Notation d := (0%nat, 0%Z).

Notation costZ := (cost NumZ P fs widths lws).
Notation arrZ := (arr_cost NumZ P fs widths lws).

(* ---------- facts about [cost] ---------- *)

(* with at most two widths every line but the first has the same width *)
Lemma nth_width_two k : (length lws <= 2)%nat -> (1 <= k)%nat ->
  nth_width (Nm := NumZ) lws k = nth_width (Nm := NumZ) lws 1.
Proof.
  intros Hl Hk. unfold nth_width.
  destruct lws as [|a [|b [|c r]]]; cbn [length] in Hl; try lia.
  - destruct k; reflexivity.
  - destruct k as [|[|k]]; try lia; reflexivity.
  - destruct k as [|[|[|k]]]; try lia; reflexivity.
Qed.

Lemma cost_lnum l l' mi i j :
  nth_width (Nm := NumZ) lws l = nth_width (Nm := NumZ) lws l' ->
  costZ l mi i j = costZ l' mi i j.
Proof. intros H. unfold cost. rewrite H. reflexivity. Qed.

Lemma cost_two l l' mi i j : (length lws <= 2)%nat ->
  (l = 0%nat <-> l' = 0%nat) -> costZ l mi i j = costZ l' mi i j.
Proof.
  intros Hl Hz. apply cost_lnum.
  destruct l as [|l], l' as [|l'].
  - reflexivity.
  - exfalso. destruct Hz as [Hz _]. specialize (Hz eq_refl). discriminate.
  - exfalso. destruct Hz as [_ Hz]. specialize (Hz eq_refl). discriminate.
  - rewrite (nth_width_two (S l)), (nth_width_two (S l')) by (auto; lia). reflexivity.
Qed.

(* [mi] enters additively *)
Lemma cost_shift l mi i j : costZ l mi i j = (mi + costZ l 0%Z i j)%Z.
Proof.
  unfold cost. cbn [NumZ T add sub mul max_ gtb ltb zero one of_N].
  set (lastf := nth (j - 1) fs (dfrag NumZ)).
  set (lw := Z.max _ _).
  set (line_w := (_ - _ - _ + _)%Z).
  set (sh := (i + 1 =? j)%nat && lt_div NumZ line_w lw (Z.of_N (p_frac P))).
  destruct (fpen lastf >? 0)%Z; destruct (line_w >? lw)%Z; destruct (j <? length fs)%nat;
    destruct sh; lia.
Qed.

Lemma cost_mono l mi mi' i j : (mi <= mi')%Z -> (costZ l mi i j <= costZ l mi' i j)%Z.
Proof. intros H. rewrite (cost_shift l mi), (cost_shift l mi'). lia. Qed.

(* ---------- the reference column-minimum search ---------- *)

(* entry (i, j) of the online matrix as the closure computes it from the current state *)
Definition cst (minima : list (nat * Z)) (lnums : list nat) (i j : nat) : Z :=
  costZ (nth i lnums 0%nat) (snd (nth i minima d)) i j.

Lemma col_min_spec minima lnums j : forall rows best,
  (rows <> [] \/ best <> None) ->
  (forall bi bc, best = Some (bi, bc) -> bc = cst minima lnums bi j) ->
  exists i c, col_min_loop NumZ P fs widths lws minima lnums j rows best = Some (i, c) /\
    c = cst minima lnums i j /\
    (In i rows \/ exists bc, best = Some (i, bc)) /\
    (forall i', In i' rows -> (c <= cst minima lnums i' j)%Z) /\
    (forall bi bc, best = Some (bi, bc) -> (c <= bc)%Z).
Proof.
  induction rows as [|r rows IH]; intros best Hne Hb.
  - cbn [col_min_loop]. destruct best as [[bi bc]|]; [|destruct Hne; congruence].
    exists bi, bc. split; [reflexivity|]. split; [eapply Hb; reflexivity|].
    split; [right; eauto|]. split; [intros i' []|]. intros bi' bc' E. inversion E. lia.
  - cbn [col_min_loop].
    change (costZ (nth r lnums 0%nat) (snd (nth r minima (0%nat, zero NumZ))) r j)
      with (cst minima lnums r j).
    set (c := cst minima lnums r j).
    destruct best as [[bi bc]|].
    + pose proof (Hb bi bc eq_refl) as Hbc.
      destruct (ltb NumZ c bc) eqn:Hlt; cbn [NumZ ltb] in Hlt.
      * apply Z.ltb_lt in Hlt.
        destruct (IH (Some (r, c))) as [i0 [c0 [E [Hc [Hin [Hmin Hbest]]]]]].
        { right; discriminate. }
        { intros bi' bc' E. injection E as <- <-. reflexivity. }
        exists i0, c0. split; [exact E|]. split; [exact Hc|].
        pose proof (Hbest r c eq_refl) as Hrc.
        split; [|split].
        -- destruct Hin as [Hin|[bc' Hin]]; [left; right; exact Hin|].
           inversion Hin. left; left; reflexivity.
        -- intros i' [Hi'|Hi']; [subst i'; exact Hrc|apply Hmin; exact Hi'].
        -- intros bi' bc' E'. inversion E'. subst bi' bc'. lia.
      * apply Z.ltb_ge in Hlt.
        destruct (IH (Some (bi, bc))) as [i0 [c0 [E [Hc [Hin [Hmin Hbest]]]]]].
        { right; discriminate. }
        { exact Hb. }
        exists i0, c0. split; [exact E|]. split; [exact Hc|].
        pose proof (Hbest bi bc eq_refl) as Hrc.
        split; [|split].
        -- destruct Hin as [Hin|Hin]; [left; right; exact Hin|right; exact Hin].
        -- intros i' [Hi'|Hi']; [subst i'; fold c; lia|apply Hmin; exact Hi'].
        -- exact Hbest.
    + destruct (IH (Some (r, c))) as [i0 [c0 [E [Hc [Hin [Hmin Hbest]]]]]].
      { right; discriminate. }
      { intros bi' bc' E. injection E as <- <-. reflexivity. }
      exists i0, c0. split; [exact E|]. split; [exact Hc|].
      pose proof (Hbest r c eq_refl) as Hrc.
      split; [|split].
      -- destruct Hin as [Hin|[bc' Hin]]; [left; right; exact Hin|].
         inversion Hin. left; left; reflexivity.
      -- intros i' [Hi'|Hi']; [subst i'; exact Hrc|apply Hmin; exact Hi'].
      -- intros bi' bc' E'. discriminate.
Qed.

Lemma col_min_seq minima lnums k : (1 <= k)%nat ->
  exists i c, col_min_loop NumZ P fs widths lws minima lnums k (seq 0 k) None = Some (i, c) /\
    (i < k)%nat /\ c = cst minima lnums i k /\
    forall i', (i' < k)%nat -> (c <= cst minima lnums i' k)%Z.
Proof.
  intros Hk.
  destruct (col_min_spec minima lnums k (seq 0 k) None) as [i [c [E [Hc [Hin [Hmin _]]]]]].
  - left. destruct k; [lia|]. cbn [seq]. discriminate.
  - intros bi bc E; discriminate.
  - exists i, c. split; [exact E|]. split; [|split; [exact Hc|]].
    + destruct Hin as [Hin|[bc Hin]]; [|discriminate]. apply in_seq in Hin. lia.
    + intros i' Hi'. apply Hmin. apply in_seq. lia.
Qed.

(* ---------- the invariant of [dp_loop] ---------- *)

Definition Inv (k : nat) (minima : list (nat * Z)) (lnums : list nat) : Prop :=
  length minima = k /\ length lnums = k /\ (1 <= k)%nat /\
  nth 0 minima d = (0%nat, 0%Z) /\ nth 0 lnums 0%nat = 0%nat /\
  forall j, (1 <= j < k)%nat ->
    (fst (nth j minima d) < j)%nat /\
    snd (nth j minima d) = cst minima lnums (fst (nth j minima d)) j /\
    (forall i', (i' < j)%nat -> (snd (nth j minima d) <= cst minima lnums i' j)%Z) /\
    nth j lnums 0%nat = S (nth (fst (nth j minima d)) lnums 0%nat).

Lemma cst_app minima lnums x y i j : (i < length minima)%nat -> (i < length lnums)%nat ->
  cst (minima ++ x) (lnums ++ y) i j = cst minima lnums i j.
Proof. intros H1 H2. unfold cst. rewrite !app_nth1 by assumption. reflexivity. Qed.

Lemma Inv_step k minima lnums i c :
  Inv k minima lnums ->
  (i < k)%nat -> c = cst minima lnums i k ->
  (forall i', (i' < k)%nat -> (c <= cst minima lnums i' k)%Z) ->
  Inv (S k) (minima ++ [(i, c)]) (lnums ++ [S (nth i lnums 0%nat)]).
Proof.
  intros [Hlm [Hll [Hk [Hm0 [Hl0 Hent]]]]] Hi Hc Hmin.
  unfold Inv. rewrite !app_length. cbn [length].
  split; [lia|]. split; [lia|]. split; [lia|].
  split; [rewrite app_nth1 by lia; exact Hm0|].
  split; [rewrite app_nth1 by lia; exact Hl0|].
  intros j Hj.
  destruct (Nat.eq_dec j k) as [->|Hne].
  - assert (Em : nth k (minima ++ [(i, c)]) d = (i, c)).
    { rewrite app_nth2 by lia. rewrite Hlm, Nat.sub_diag. reflexivity. }
    assert (El : nth k (lnums ++ [S (nth i lnums 0%nat)]) 0%nat = S (nth i lnums 0%nat)).
    { rewrite app_nth2 by lia. rewrite Hll, Nat.sub_diag. reflexivity. }
    rewrite Em, El. cbn [fst snd].
    split; [exact Hi|]. split; [rewrite cst_app by lia; exact Hc|].
    split; [intros i' Hi'; rewrite cst_app by lia; apply Hmin; exact Hi'|].
    rewrite app_nth1 by lia. reflexivity.
  - destruct (Hent j ltac:(lia)) as [H1 [H2 [H3 H4]]].
    rewrite (app_nth1 minima) by lia. rewrite (app_nth1 lnums) by lia.
    split; [exact H1|]. split; [rewrite cst_app by lia; exact H2|].
    split; [intros i' Hi'; rewrite cst_app by lia; apply H3; exact Hi'|].
    rewrite app_nth1 by lia. exact H4.
Qed.

Lemma dp_loop_inv : forall m k minima lnums, Inv k minima lnums ->
  exists lnums', Inv (k + m) (dp_loop NumZ P fs widths lws (seq k m) minima lnums) lnums'.
Proof.
  induction m as [|m IH]; intros k minima lnums HI.
  - cbn [seq dp_loop]. exists lnums. rewrite Nat.add_0_r. exact HI.
  - cbn [seq dp_loop].
    assert (Hk : (1 <= k)%nat) by (destruct HI as [_ [_ [Hk _]]]; exact Hk).
    destruct (col_min_seq minima lnums k Hk) as [i [c [E [Hi [Hc Hmin]]]]].
    rewrite E.
    destruct (IH (S k) _ _ (Inv_step k minima lnums i c HI Hi Hc Hmin)) as [lnums' HI'].
    exists lnums'. replace (k + S m)%nat with (S k + m)%nat by lia. exact HI'.
Qed.

Lemma dp_minima_inv : exists lnums, Inv (S n) (dp_minima NumZ P fs lws) lnums.
Proof.
  unfold dp_minima. change (S n) with (1 + n)%nat.
  apply dp_loop_inv. unfold Inv. cbn [length nth].
  repeat split; try reflexivity; try lia.
Qed.

(* ---------- column minima with respect to a line-number function ---------- *)

(* [minima] holds true column minima of the online matrix whose entry (i, j) is
   [cost (LN i) (snd minima[i]) i j]; [c0] is the initial value (entry 0) *)
Definition CM (c0 : Z) (LN : nat -> nat) (minima : list (nat * Z)) : Prop :=
  length minima = S n /\ nth 0 minima d = (0%nat, c0) /\
  forall j, (1 <= j <= n)%nat ->
    (fst (nth j minima d) < j)%nat /\
    snd (nth j minima d) =
      costZ (LN (fst (nth j minima d))) (snd (nth (fst (nth j minima d)) minima d))
            (fst (nth j minima d)) j /\
    forall i', (i' < j)%nat ->
      (snd (nth j minima d) <= costZ (LN i') (snd (nth i' minima d)) i' j)%Z.

Lemma CM_minima_ok c0 LN minima : CM c0 LN minima -> minima_ok NumZ minima n.
Proof.
  intros [Hlen [H0 Hent]]. unfold minima_ok. cbn [T NumZ]. split; [exact Hlen|]. split.
  - exists c0. rewrite (nth_error_nth' minima d) by lia. rewrite H0. reflexivity.
  - intros j p c Hj E.
    assert (Hjn : (j < length minima)%nat) by (apply nth_error_Some; rewrite E; discriminate).
    apply (nth_error_nth _ _ d) in E.
    destruct (Hent j ltac:(lia)) as [Hlt _]. rewrite E in Hlt. exact Hlt.
Qed.

Lemma CM_cost_ext c0 LN LN' minima :
  (forall i mi j, (i <= n)%nat -> costZ (LN i) mi i j = costZ (LN' i) mi i j) ->
  CM c0 LN minima -> CM c0 LN' minima.
Proof.
  intros Hext [Hlen [H0 Hent]]. split; [exact Hlen|]. split; [exact H0|].
  intros j Hj. destruct (Hent j Hj) as [H1 [H2 H3]].
  split; [exact H1|]. split.
  - rewrite <- Hext by lia. exact H2.
  - intros i' Hi'. rewrite <- Hext by lia. apply H3. exact Hi'.
Qed.

Lemma CM_ext c0 LN LN' minima :
  (forall i, (i <= n)%nat -> LN i = LN' i) -> CM c0 LN minima -> CM c0 LN' minima.
Proof. intros H. apply CM_cost_ext. intros i mi j Hi. rewrite (H i Hi). reflexivity. Qed.

(* with at most two widths only "is it line 0" matters *)
Lemma CM_two c0 LN LN' minima : (length lws <= 2)%nat ->
  (forall i, (i <= n)%nat -> (LN i = 0%nat <-> i = 0%nat)) ->
  (forall i, (i <= n)%nat -> (LN' i = 0%nat <-> i = 0%nat)) ->
  CM c0 LN minima -> CM c0 LN' minima.
Proof.
  intros Hl Hz Hz'. apply CM_cost_ext. intros i mi j Hi. apply cost_two; [exact Hl|].
  rewrite (Hz i Hi), (Hz' i Hi). tauto.
Qed.

(* ---------- lower bound: induction over an arbitrary chain ---------- *)

Lemma lower_gen c0 LN minima : (length lws <= 2)%nat -> CM c0 LN minima ->
  (forall i, (i <= n)%nat -> (LN i = 0%nat <-> i = 0%nat)) ->
  forall rs a e l acc, chain e a rs -> (e <= n)%nat -> (l = 0%nat <-> a = 0%nat) ->
    (snd (nth a minima d) <= acc)%Z -> (snd (nth e minima d) <= arrZ rs l acc)%Z.
Proof.
  intros Hl [Hlen [H0 Hent]] HLN.
  induction rs as [|[s e'] r IH]; intros a e l acc Hch He Hla Hacc; cbn [chain arr_cost] in *.
  - subst a. exact Hacc.
  - destruct Hch as [Hs [Hlt Hr]]. subst s. pose proof (chain_le _ _ _ Hr) as Hle.
    apply (IH e' e (S l)); [exact Hr|exact He|split; intros; lia|].
    destruct (Hent e' ltac:(lia)) as [_ [_ Hmin]].
    eapply Z.le_trans; [apply (Hmin a); lia|].
    rewrite (cost_two (LN a) l) by (try exact Hl; rewrite (HLN a) by lia; tauto).
    apply cost_mono. exact Hacc.
Qed.

(* ---------- attained: telescoping along the back-tracked chain ---------- *)

Lemma arr_cost_app : forall rs1 rs2 l acc,
  arrZ (rs1 ++ rs2) l acc = arrZ rs2 (l + length rs1) (arrZ rs1 l acc).
Proof.
  induction rs1 as [|[s e] r IH]; intros rs2 l acc; cbn [app arr_cost length].
  - rewrite Nat.add_0_r. reflexivity.
  - rewrite IH. replace (S l + length r)%nat with (l + S (length r))%nat by lia. reflexivity.
Qed.

Lemma telescope c0 LN minima : CM c0 LN minima -> LN 0%nat = 0%nat ->
  (forall j, (1 <= j <= n)%nat -> LN j = S (LN (fst (nth j minima d)))) ->
  forall fuel pos acc, (1 <= pos <= n)%nat -> (pos < fuel)%nat ->
  exists rs, backtrack NumZ fuel minima pos acc = Some (rs ++ acc) /\ chain pos 0%nat rs /\
    length rs = LN pos /\ arrZ rs 0%nat c0 = snd (nth pos minima d).
Proof.
  intros [Hlen [H0 Hent]] HLN0 HLNS fuel.
  induction fuel as [|f IH]; intros pos acc Hpos Hf; [lia|].
  cbn [backtrack]. rewrite (nth_error_nth' minima d) by lia.
  destruct (Hent pos Hpos) as [Hp [Hc _]]. pose proof (HLNS pos Hpos) as HLNp.
  destruct (nth pos minima d) as [prev c] eqn:E. cbn [fst snd] in *.
  destruct (pos <? prev)%nat eqn:Hcmp; [apply Nat.ltb_lt in Hcmp; lia|].
  destruct (prev =? 0)%nat eqn:Hz.
  - apply Nat.eqb_eq in Hz. subst prev. exists [(0%nat, pos)]. split; [reflexivity|].
    split; [cbn [chain]; repeat split; lia|]. split; [cbn [length]; lia|].
    cbn [arr_cost]. rewrite Hc, HLN0, H0. reflexivity.
  - apply Nat.eqb_neq in Hz.
    destruct (IH prev ((prev, pos) :: acc) ltac:(lia) ltac:(lia)) as [rs [Hrs [Hch [Hlen' Hcost]]]].
    exists (rs ++ [(prev, pos)]). split; [rewrite Hrs, <- app_assoc; reflexivity|].
    split; [apply chain_snoc; assumption|].
    split; [rewrite app_length; cbn [length]; lia|].
    rewrite arr_cost_app. cbn [arr_cost Nat.add]. rewrite Hlen', Hcost, Hc. reflexivity.
Qed.

(* ---------- the reference implementation ---------- *)

Lemma dp_CM : exists lnums,
  CM 0%Z (fun i => nth i lnums 0%nat) (dp_minima NumZ P fs lws) /\
  nth 0 lnums 0%nat = 0%nat /\
  forall j, (1 <= j <= n)%nat ->
    nth j lnums 0%nat = S (nth (fst (nth j (dp_minima NumZ P fs lws) d)) lnums 0%nat).
Proof.
  destruct dp_minima_inv as [lnums [Hlm [Hll [Hk [Hm0 [Hl0 Hent]]]]]].
  exists lnums. split; [|split; [exact Hl0|]].
  - split; [exact Hlm|]. split; [exact Hm0|]. intros j Hj.
    destruct (Hent j ltac:(lia)) as [H1 [H2 [H3 _]]]. unfold cst in H2, H3.
    split; [exact H1|]. split; [exact H2|exact H3].
  - intros j Hj. destruct (Hent j ltac:(lia)) as [_ [_ [_ H4]]]. exact H4.
Qed.

Lemma lnums_zero lnums (minima : list (nat * Z)) :
  nth 0 lnums 0%nat = 0%nat ->
  (forall j, (1 <= j <= n)%nat -> nth j lnums 0%nat = S (nth (fst (nth j minima d)) lnums 0%nat)) ->
  forall i, (i <= n)%nat -> (nth i lnums 0%nat = 0%nat <-> i = 0%nat).
Proof.
  intros H0 HS i Hi. destruct i as [|i]; [tauto|].
  rewrite (HS (S i)) by lia. split; intros; lia.
Qed.

(* Target 1 *)
Theorem dp_minima_ok : minima_ok NumZ (dp_minima NumZ P fs lws) n.
Proof. destruct dp_CM as [lnums [H _]]. eapply CM_minima_ok; exact H. Qed.

Lemma opt_cost_nth : opt_cost NumZ P fs lws = snd (nth n (dp_minima NumZ P fs lws) d).
Proof.
  unfold opt_cost. change (0%nat, zero NumZ) with d. rewrite last_nth_pred.
  destruct dp_minima_ok as [Hlen _]. rewrite Hlen. rewrite Nat.sub_succ, Nat.sub_0_r. reflexivity.
Qed.

(* the DP value of every prefix is a lower bound for every chain ending there *)
Lemma dp_lower_prefix : (length lws <= 2)%nat ->
  forall e rs, (e <= n)%nat -> chain e 0%nat rs ->
  (snd (nth e (dp_minima NumZ P fs lws) d) <= arrZ rs 0%nat 0%Z)%Z.
Proof.
  intros Hl e rs He Hch. destruct dp_CM as [lnums [HCM [H0 HS]]].
  apply (lower_gen _ _ _ Hl HCM (lnums_zero lnums _ H0 HS) rs 0%nat e 0%nat 0%Z Hch He); [tauto|].
  destruct HCM as [_ [Hm0 _]]. rewrite Hm0. cbn [snd]. lia.
Qed.

(* Target 2 *)
Theorem bellman_lower : (length lws <= 2)%nat ->
  forall rs, chain n 0%nat rs ->
  (opt_cost NumZ P fs lws <= arrangement_cost NumZ P fs lws rs)%Z.
Proof.
  intros Hl rs Hch. rewrite opt_cost_nth. unfold arrangement_cost.
  apply dp_lower_prefix; [exact Hl|lia|exact Hch].
Qed.

(* the chain back-tracked from any column of [dp_minima] costs exactly that column's
   value -- no restriction on the number of widths *)
Lemma dp_attained_prefix : forall fuel pos acc, (1 <= pos <= n)%nat -> (pos < fuel)%nat ->
  exists rs, backtrack NumZ fuel (dp_minima NumZ P fs lws) pos acc = Some (rs ++ acc) /\
    chain pos 0%nat rs /\ arrZ rs 0%nat 0%Z = snd (nth pos (dp_minima NumZ P fs lws) d).
Proof.
  intros fuel pos acc Hpos Hf. destruct dp_CM as [lnums [HCM [H0 HS]]].
  destruct (telescope _ _ _ HCM H0 HS fuel pos acc Hpos Hf) as [rs [H1 [H2 [_ H3]]]].
  exists rs. auto.
Qed.

(* Target 3, without the two-width hypothesis (it is not needed: [lnums] is exactly
   the length of the back-tracked chain) *)
Theorem bellman_attained_any_widths : (1 <= n)%nat ->
  exists rs, backtrack NumZ (S n) (dp_minima NumZ P fs lws) n [] = Some rs /\
    chain n 0%nat rs /\
    arrangement_cost NumZ P fs lws rs = opt_cost NumZ P fs lws.
Proof.
  intros Hn. destruct (dp_attained_prefix (S n) n [] ltac:(lia) ltac:(lia)) as [rs [H1 [H2 H3]]].
  exists rs. rewrite app_nil_r in H1. split; [exact H1|]. split; [exact H2|].
  rewrite opt_cost_nth. exact H3.
Qed.

(* Target 3 as stated (for n >= 1; for n = 0 see [bellman_nil] below) *)
Theorem bellman_attained : (length lws <= 2)%nat -> (1 <= n)%nat ->
  exists rs, backtrack NumZ (S n) (dp_minima NumZ P fs lws) n [] = Some rs /\
    chain n 0%nat rs /\
    arrangement_cost NumZ P fs lws rs = opt_cost NumZ P fs lws.
Proof. intros _. exact bellman_attained_any_widths. Qed.

(* ---------- an arbitrary oracle answer ---------- *)

(* the line number the implementation derives from [minima]:
   LN 0 = 0, LN j = 1 + LN (fst minima[j]) *)
Fixpoint LNf (fuel : nat) (minima : list (nat * Z)) (j : nat) : nat :=
  match fuel with
  | O => 0%nat
  | S f => match j with
           | O => 0%nat
           | S _ => S (LNf f minima (fst (nth j minima d)))
           end
  end.
Definition LN (minima : list (nat * Z)) (j : nat) : nat := LNf j minima j.

Lemma LN_zero minima i : LN minima i = 0%nat <-> i = 0%nat.
Proof. unfold LN. destruct i as [|i]; cbn [LNf]; split; intros H; try reflexivity; discriminate. Qed.

Lemma LNf_fuel minima :
  (forall j, (1 <= j <= n)%nat -> (fst (nth j minima d) < j)%nat) ->
  forall f f' j, (j <= f)%nat -> (j <= f')%nat -> (j <= n)%nat ->
  LNf f minima j = LNf f' minima j.
Proof.
  intros Hlt. induction f as [|f IH]; intros f' j Hf Hf' Hj.
  - assert (j = 0%nat) by lia. subst j. destruct f'; reflexivity.
  - destruct j as [|j]; [destruct f'; reflexivity|].
    destruct f' as [|f']; [lia|]. cbn [LNf]. f_equal.
    pose proof (Hlt (S j) ltac:(lia)) as Hp. apply IH; lia.
Qed.

Lemma LN_succ minima :
  (forall j, (1 <= j <= n)%nat -> (fst (nth j minima d) < j)%nat) ->
  forall j, (1 <= j <= n)%nat -> LN minima j = S (LN minima (fst (nth j minima d))).
Proof.
  intros Hlt j Hj. unfold LN. destruct j as [|j]; [lia|]. cbn [LNf]. f_equal.
  pose proof (Hlt (S j) Hj) as Hp. apply LNf_fuel; [exact Hlt|lia|lia|lia].
Qed.

(* Target 4, exactly as in the brief.  Note that [minima_ok] lets entry 0 be (0, c0)
   for any initial value c0; this is harmless because [cost] is additive in [mi]: all
   values are shifted by c0 and the argmins are unaffected. *)
Definition ColMin (minima : list (nat * Z)) : Prop :=
  minima_ok NumZ minima n /\
  forall j, (1 <= j <= n)%nat ->
    exists i c, nth_error minima j = Some (i, c) /\
      c = costZ (LN minima i) (snd (nth i minima d)) i j /\
      forall i', (i' < j)%nat ->
        (c <= costZ (LN minima i') (snd (nth i' minima d)) i' j)%Z.

Lemma ColMin_CM minima : ColMin minima -> CM (snd (nth 0 minima d)) (LN minima) minima.
Proof.
  intros [[Hlen [[c0 H0] Hlt]] Hent]. split; [exact Hlen|].
  split; [apply (nth_error_nth _ _ d) in H0; rewrite H0; reflexivity|].
  intros j Hj. destruct (Hent j Hj) as [i [c [E [Hc Hmin]]]].
  pose proof (Hlt j i c ltac:(lia) E) as Hi.
  apply (nth_error_nth _ _ d) in E. rewrite E. cbn [fst snd].
  split; [exact Hi|]. split; [exact Hc|exact Hmin].
Qed.

Lemma CM_ColMin c0 minima : CM c0 (LN minima) minima -> ColMin minima.
Proof.
  intros HCM. pose proof (CM_minima_ok _ _ _ HCM) as Hok. destruct HCM as [Hlen [H0 Hent]].
  split; [exact Hok|].
  - intros j Hj. destruct (Hent j Hj) as [H1 [H2 H3]].
    exists (fst (nth j minima d)), (snd (nth j minima d)).
    split; [|split; [exact H2|exact H3]].
    rewrite (nth_error_nth' minima d) by lia. rewrite <- surjective_pairing. reflexivity.
Qed.

Lemma CM_fst_lt c0 LNx minima : CM c0 LNx minima ->
  forall j, (1 <= j <= n)%nat -> (fst (nth j minima d) < j)%nat.
Proof. intros [_ [_ Hent]] j Hj. destruct (Hent j Hj) as [H _]. exact H. Qed.

(* [ColMin] is satisfiable: the reference implementation satisfies it, for any number
   of widths (its [lnums] coincide with [LN]) *)
Theorem dp_minima_ColMin : ColMin (dp_minima NumZ P fs lws).
Proof.
  destruct dp_CM as [lnums [HCM [H0 HS]]]. apply (CM_ColMin 0%Z).
  apply (CM_ext _ (fun i => nth i lnums 0%nat)); [|exact HCM].
  pose proof (CM_fst_lt _ _ _ HCM) as Hlt.
  intros i. induction i as [i IH] using (well_founded_induction lt_wf). intros Hi.
  destruct i as [|i]; [rewrite H0; reflexivity|].
  rewrite (HS (S i)) by lia. rewrite (LN_succ _ Hlt (S i)) by lia. f_equal.
  pose proof (Hlt (S i) ltac:(lia)) as Hp. apply IH; lia.
Qed.

Lemma arr_shift c0 : forall rs l acc, arrZ rs l (c0 + acc)%Z = (c0 + arrZ rs l acc)%Z.
Proof.
  induction rs as [|[s e] r IH]; intros l acc; cbn [arr_cost]; [reflexivity|].
  rewrite <- IH. f_equal. rewrite (cost_shift l (c0 + acc)%Z), (cost_shift l acc). lia.
Qed.

(* under [ColMin] with at most two widths the values agree with the reference DP
   column by column (up to the initial value), although the argmins may differ *)
Theorem colmin_values minima : (length lws <= 2)%nat -> ColMin minima ->
  forall j, (j <= n)%nat ->
  snd (nth j minima d) = (snd (nth 0 minima d) + snd (nth j (dp_minima NumZ P fs lws) d))%Z.
Proof.
  intros Hl HC j Hj. pose proof (ColMin_CM _ HC) as HCM.
  set (c0 := snd (nth 0 minima d)) in *.
  destruct dp_CM as [lnums [HCMd [H0 HS]]].
  destruct j as [|j].
  { destruct HCMd as [_ [E' _]]. fold c0.
    replace (snd (nth 0 (dp_minima NumZ P fs lws) d)) with 0%Z; [lia|].
    symmetry. exact (f_equal snd E'). }
  pose proof (CM_fst_lt _ _ _ HCM) as Hlt.
  destruct (telescope _ _ _ HCM (proj2 (LN_zero minima 0) eq_refl) (LN_succ _ Hlt)
              (S (S j)) (S j) [] ltac:(lia) ltac:(lia)) as [rs [_ [Hch [_ Hcost]]]].
  destruct (dp_attained_prefix (S (S j)) (S j) [] ltac:(lia) ltac:(lia)) as [rs' [_ [Hch' Hcost']]].
  pose proof (dp_lower_prefix Hl (S j) rs Hj Hch) as Hle1.
  assert (Hle2 : (snd (nth (S j) minima d) <= arrZ rs' 0%nat c0)%Z).
  { apply (lower_gen _ _ _ Hl HCM (fun i _ => LN_zero minima i) rs' 0%nat (S j) 0%nat c0 Hch' Hj);
      [tauto|]. destruct HCM as [_ [E _]]. rewrite E. cbn [snd]. lia. }
  pose proof (arr_shift c0 rs 0%nat 0%Z) as S1. pose proof (arr_shift c0 rs' 0%nat 0%Z) as S2.
  rewrite Z.add_0_r in S1, S2. lia.
Qed.

Theorem colmin_optimal minima : (length lws <= 2)%nat -> (1 <= n)%nat -> ColMin minima ->
  exists rs, backtrack NumZ (S n) minima n [] = Some rs /\ chain n 0%nat rs /\
    arrangement_cost NumZ P fs lws rs = opt_cost NumZ P fs lws.
Proof.
  intros Hl Hn HC. pose proof (ColMin_CM _ HC) as HCM.
  pose proof (CM_fst_lt _ _ _ HCM) as Hlt.
  destruct (telescope _ _ _ HCM (proj2 (LN_zero minima 0) eq_refl) (LN_succ _ Hlt)
              (S n) n [] ltac:(lia) ltac:(lia)) as [rs [Hbt [Hch [_ Hcost]]]].
  exists rs. rewrite app_nil_r in Hbt. split; [exact Hbt|]. split; [exact Hch|].
  change (arrangement_cost NumZ P fs lws rs) with (arrZ rs 0%nat 0%Z).
  pose proof (arr_shift (snd (nth 0 minima d)) rs 0%nat 0%Z) as S1. rewrite Z.add_0_r in S1.
  rewrite (colmin_values minima Hl HC n (le_n _)) in Hcost. rewrite opt_cost_nth. lia.
Qed.

End Bellman.

(* ---------- the empty paragraph (n = 0) ---------- *)

Lemma chain_0_0 rs : chain 0 0 rs -> rs = [].
Proof.
  destruct rs as [|[s e] r]; [reflexivity|]. cbn [chain]. intros [Hs [Hlt Hr]].
  apply chain_le in Hr. lia.
Qed.

(* for no fragments the only arrangement is the empty one, of cost 0 = opt_cost; the
   back-tracking loop returns the single empty range and optimal_fit the single empty line *)
Theorem bellman_nil P lws :
  opt_cost NumZ P [] lws = 0%Z /\
  arrangement_cost NumZ P [] lws [] = 0%Z /\
  (forall rs, chain 0 0 rs -> rs = []) /\
  backtrack NumZ 1 (dp_minima NumZ P [] lws) 0 [] = Some [(0%nat, 0%nat)] /\
  forall (A : Type) (m : A -> frag NumZ), optimal_fit m P [] lws = Some [[]].
Proof. repeat split; try reflexivity. exact chain_0_0. Qed.

(* ---------- C03 assembled for [optimal_fit] ---------- *)

Theorem optimal_fit_minimal (A : Type) (m : A -> frag NumZ) P (xs : list A) lws :
  (length lws <= 2)%nat -> xs <> [] ->
  exists rs,
    optimal_fit m P xs lws = Some (map (fun '(a, b) => slice xs a b) rs) /\
    chain (length xs) 0 rs /\
    arrangement_cost NumZ P (map m xs) lws rs = opt_cost NumZ P (map m xs) lws /\
    forall rs', chain (length xs) 0 rs' ->
      (arrangement_cost NumZ P (map m xs) lws rs <= arrangement_cost NumZ P (map m xs) lws rs')%Z.
Proof.
  intros Hl Hne.
  assert (Hn : (1 <= length (map m xs))%nat).
  { rewrite map_length. destruct xs; [congruence|cbn [length]; lia]. }
  destruct (bellman_attained_any_widths P (map m xs) lws Hn) as [rs [Hbt [Hch Hc]]].
  rewrite map_length in Hbt, Hch.
  exists rs. split; [|split; [exact Hch|split; [exact Hc|]]].
  - unfold optimal_fit, optimal_fit_with. rewrite Hbt. reflexivity.
  - intros rs' Hch'. rewrite Hc. apply bellman_lower; [exact Hl|]. rewrite map_length. exact Hch'.
Qed.

(* ---------- Target 1 for every numeric structure (no laws) ---------- *)

Section Gen.
Variable Nm : Num.
Variable P : penalties.
Variable fs : list (frag Nm).
Variable widths lws : list (T Nm).

Lemma col_min_in minima lnums j : forall rows best,
  (rows <> [] \/ best <> None) ->
  exists i c, col_min_loop Nm P fs widths lws minima lnums j rows best = Some (i, c) /\
    (In i rows \/ exists bc, best = Some (i, bc)).
Proof.
  induction rows as [|r rows IH]; intros best Hne; cbn [col_min_loop].
  - destruct best as [[bi bc]|]; [|destruct Hne; congruence].
    exists bi, bc. split; [reflexivity|right; eauto].
  - set (c := cost Nm P fs widths lws _ _ r j).
    assert (Hnew : exists i c', col_min_loop Nm P fs widths lws minima lnums j rows (Some (r, c)) = Some (i, c') /\
                     (In i (r :: rows) \/ exists bc, best = Some (i, bc))).
    { destruct (IH (Some (r, c))) as [i [c' [E Hin]]]; [right; discriminate|].
      exists i, c'. split; [exact E|].
      destruct Hin as [Hin|[bc' Hin]]; [left; right; exact Hin|].
      injection Hin as <- _. left; left; reflexivity. }
    destruct best as [[bi bc]|]; [|exact Hnew].
    destruct (ltb Nm c bc); [exact Hnew|].
    destruct (IH (Some (bi, bc))) as [i [c' [E Hin]]]; [right; discriminate|].
    exists i, c'. split; [exact E|].
    destruct Hin as [Hin|Hin]; [left; right; exact Hin|right; exact Hin].
Qed.

Definition shape (k : nat) (minima : list (nat * T Nm)) : Prop :=
  length minima = k /\ (1 <= k)%nat /\
  (exists c0, nth_error minima 0 = Some (0%nat, c0)) /\
  forall j p c, (1 <= j)%nat -> nth_error minima j = Some (p, c) -> (p < j)%nat.

Lemma shape_step k minima i c : shape k minima -> (i < k)%nat -> shape (S k) (minima ++ [(i, c)]).
Proof.
  intros [Hlen [Hk [[c0 H0] Hlt]]] Hi. unfold shape. rewrite app_length. cbn [length].
  split; [lia|]. split; [lia|]. split.
  - exists c0. rewrite nth_error_app1 by lia. exact H0.
  - intros j p c' Hj E.
    destruct (Nat.lt_ge_cases j k) as [Hjk|Hjk].
    + rewrite nth_error_app1 in E by lia. exact (Hlt j p c' Hj E).
    + assert (Hjl : (j < length (minima ++ [(i, c)]))%nat) by (apply nth_error_Some; rewrite E; discriminate).
      rewrite app_length in Hjl. cbn [length] in Hjl. assert (j = k) by lia. subst j.
      rewrite nth_error_app2 in E by lia. rewrite Hlen, Nat.sub_diag in E. cbn [nth_error] in E.
      injection E as <- _. exact Hi.
Qed.

Lemma dp_loop_shape : forall m k minima lnums, shape k minima ->
  shape (k + m) (dp_loop Nm P fs widths lws (seq k m) minima lnums).
Proof.
  induction m as [|m IH]; intros k minima lnums Hs; cbn [seq dp_loop].
  - rewrite Nat.add_0_r. exact Hs.
  - assert (Hk : (1 <= k)%nat) by (destruct Hs as [_ [Hk _]]; exact Hk).
    destruct (col_min_in minima lnums k (seq 0 k) None) as [i [c [E Hin]]].
    { left. destruct k; [lia|]. cbn [seq]. discriminate. }
    rewrite E. destruct Hin as [Hin|[bc Hin]]; [|discriminate]. apply in_seq in Hin.
    replace (k + S m)%nat with (S k + m)%nat by lia. apply IH. apply shape_step; [exact Hs|lia].
Qed.
End Gen.

Theorem dp_minima_ok_gen (Nm : Num) P (fs : list (frag Nm)) lws :
  minima_ok Nm (dp_minima Nm P fs lws) (length fs).
Proof.
  unfold dp_minima.
  destruct (dp_loop_shape Nm P fs (prefix_widths Nm fs (zero Nm)) lws (length fs) 1
              [(0%nat, zero Nm)] [0%nat]) as [Hlen [_ [H0 Hlt]]].
  - unfold shape. cbn [length]. split; [reflexivity|]. split; [lia|]. split.
    + exists (zero Nm). reflexivity.
    + intros j p c Hj E. destruct j as [|[|j]]; [lia| |]; discriminate.
  - unfold minima_ok. split; [exact Hlen|]. split; [exact H0|exact Hlt].
Qed.

(* ---------- examples: non-vacuity and the role of the hypotheses ---------- *)

Definition ex_frag (w ws p : Z) : frag NumZ := mkFrag (Nm := NumZ) w ws p.

(* Target 6: six fragments, widths [10; 8], default penalties *)
Definition ex1_fs : list (frag NumZ) :=
  [ex_frag 4 1 0; ex_frag 3 1 0; ex_frag 5 1 0; ex_frag 2 1 0; ex_frag 6 1 0; ex_frag 3 0 0].

Example ex1_dp :
  dp_minima NumZ default_penalties ex1_fs [10; 8]%Z =
    [(0%nat, 0%Z); (0%nat, 1036%Z); (0%nat, 1004%Z); (2%nat, 2013%Z); (2%nat, 2004%Z); (4%nat, 3008%Z); (5%nat, 4008%Z)] /\
  opt_cost NumZ default_penalties ex1_fs [10; 8]%Z = 4008%Z /\
  backtrack NumZ 7 (dp_minima NumZ default_penalties ex1_fs [10; 8]%Z) 6 [] =
    Some [(0, 2); (2, 4); (4, 5); (5, 6)]%nat /\
  arrangement_cost NumZ default_penalties ex1_fs [10; 8]%Z [(0, 2); (2, 4); (4, 5); (5, 6)]%nat = 4008%Z /\
  arrangement_cost NumZ default_penalties ex1_fs [10; 8]%Z [(0, 2); (2, 3); (3, 5); (5, 6)]%nat = 6513%Z.
Proof. vm_compute. repeat split. Qed.

(* [bellman_lower] instantiated: a for-all-arrangements statement about this input *)
Example ex1_lower : forall rs, chain 6 0 rs ->
  (4008 <= arrangement_cost NumZ default_penalties ex1_fs [10; 8]%Z rs)%Z.
Proof.
  intros rs Hch.
  apply (bellman_lower default_penalties ex1_fs [10; 8]%Z ltac:(cbn [length]; lia) rs Hch).
Qed.

(* The two-width hypothesis of [bellman_lower] is NECESSARY: with three widths the DP
   (which threads one line number per column) is not optimal. *)
Definition ex3_fs : list (frag NumZ) := [ex_frag 3 1 0; ex_frag 3 1 0; ex_frag 8 0 0].

Example three_widths_counterexample :
  chain (length ex3_fs) 0 [(0, 1); (1, 2); (2, 3)]%nat /\
  opt_cost NumZ default_penalties ex3_fs [10; 1; 10]%Z = 16000%Z /\
  arrangement_cost NumZ default_penalties ex3_fs [10; 1; 10]%Z [(0, 1); (1, 2); (2, 3)]%nat = 8049%Z.
Proof. split; [cbn; repeat split; lia|]. vm_compute. split; reflexivity. Qed.

Example bellman_lower_false_for_three_widths :
  ~ (forall P fs lws rs, chain (length fs) 0 rs ->
       (opt_cost NumZ P fs lws <= arrangement_cost NumZ P fs lws rs)%Z).
Proof.
  intros H. destruct three_widths_counterexample as [Hch [Ho Ha]].
  specialize (H default_penalties ex3_fs [10; 1; 10]%Z _ Hch). rewrite Ho, Ha in H. lia.
Qed.

(* [ColMin] allows answers other than [dp_minima] (here column 3 has a tie between rows
   1 and 2; the reference takes the leftmost, this oracle answer the other one), and
   [colmin_optimal] applies to them. *)
Definition ex2_fs : list (frag NumZ) := [ex_frag 5 0 0; ex_frag 2 0 0; ex_frag 5 0 0; ex_frag 10 0 0].
Definition ex2_minima : list (nat * Z) := [(0%nat, 0%Z); (0%nat, 1025%Z); (0%nat, 1009%Z); (2%nat, 2034%Z); (3%nat, 3034%Z)].

Example ex2_colmin :
  ColMin default_penalties ex2_fs [10; 10]%Z ex2_minima /\
  dp_minima NumZ default_penalties ex2_fs [10; 10]%Z =
    [(0%nat, 0%Z); (0%nat, 1025%Z); (0%nat, 1009%Z); (1%nat, 2034%Z); (3%nat, 3034%Z)] /\
  backtrack NumZ 5 ex2_minima 4 [] = Some [(0, 2); (2, 3); (3, 4)]%nat /\
  backtrack NumZ 5 (dp_minima NumZ default_penalties ex2_fs [10; 10]%Z) 4 [] =
    Some [(0, 1); (1, 3); (3, 4)]%nat /\
  arrangement_cost NumZ default_penalties ex2_fs [10; 10]%Z [(0, 2); (2, 3); (3, 4)]%nat = 3034%Z /\
  opt_cost NumZ default_penalties ex2_fs [10; 10]%Z = 3034%Z.
Proof.
  split; [|vm_compute; repeat split].
  unfold ColMin. change (length ex2_fs) with 4%nat. split.
  - unfold minima_ok. split; [reflexivity|]. split; [eexists; reflexivity|].
    intros j p c Hj E.
    destruct j as [|[|[|[|[|j]]]]]; cbn in E; try lia;
      try (injection E as <- _; lia). destruct j; discriminate.
  - intros j Hj.
    destruct j as [|[|[|[|[|j]]]]]; try lia;
      (eexists _, _; split; [reflexivity|]; split; [vm_compute; reflexivity|];
       intros i' Hi'; destruct i' as [|[|[|[|i']]]]; try lia;
       apply Z.leb_le; vm_compute; reflexivity).
Qed.

Print Assumptions dp_minima_ok.
Print Assumptions dp_minima_ok_gen.
Print Assumptions bellman_lower.
Print Assumptions bellman_attained.
Print Assumptions bellman_attained_any_widths.
Print Assumptions dp_minima_ColMin.
Print Assumptions colmin_values.
Print Assumptions colmin_optimal.
Print Assumptions bellman_nil.
Print Assumptions optimal_fit_minimal.
Print Assumptions bellman_lower_false_for_three_widths.
Print Assumptions ex2_colmin.
