(* C15 / C16: unfill is total and structurally sound (Part A), inverts the shape
   that fill produces (Part B), and refill = fill at the new options (Part C). *)
From Coq Require Import Lia.
From TW Require Import Refill.

Arguments N.add : simpl never.
Arguments N.sub : simpl never.
Arguments N.mul : simpl never.
Arguments N.leb : simpl never.
Arguments N.ltb : simpl never.
Arguments N.eqb : simpl never.
Arguments N.max : simpl never.

(* lemmas proved inside a section depend only on the section variables their
   statement mentions *)
Set Default Proof Using "Type".

(* ------------------------------------------------------------------ *)
(* Generic vocabulary                                                  *)
(* ------------------------------------------------------------------ *)

Definition lf_free (s : str) : Prop := Forall (fun c => c <> LF) s.
Definition prefix_of (p l : str) : Prop := exists r, l = p ++ r.
Definition pchars (s : str) : Prop := Forall (fun c => is_prefix_char c = true) s.

Lemma prefix_of_refl p : prefix_of p p.
Proof. exists []. now rewrite app_nil_r. Qed.

Lemma prefix_of_nil l : prefix_of [] l.
Proof. exists l. reflexivity. Qed.

Lemma prefix_of_trans a b c : prefix_of a b -> prefix_of b c -> prefix_of a c.
Proof. intros [r1 H1] [r2 H2]. exists (r1 ++ r2). subst. now rewrite app_assoc. Qed.

Lemma prefix_of_Forall (P : char -> Prop) p l : prefix_of p l -> Forall P l -> Forall P p.
Proof. intros [r H] Hl. subst l. apply Forall_app in Hl. tauto. Qed.

Lemma utf8_len_ge1 c : 1 <= utf8_len c.
Proof. unfold utf8_len. destruct (c <? 128), (c <? 2048), (c <? 65536); lia. Qed.

Lemma blen_app a b : blen (a ++ b) = blen a + blen b.
Proof. induction a as [|c a IH]; cbn [app blen]; [lia|]. rewrite IH. lia. Qed.

Lemma prefix_of_blen p l : prefix_of p l -> blen p <= blen l.
Proof. intros [r H]. subst l. rewrite blen_app. lia. Qed.

Lemma bdrop_zero s : bdrop s 0 = Some s.
Proof. destruct s; reflexivity. Qed.

Lemma bdrop_app p r : bdrop (p ++ r) (blen p) = Some r.
Proof.
  induction p as [|c p IH]; cbn [app blen].
  - apply bdrop_zero.
  - cbn [bdrop]. pose proof (utf8_len_ge1 c) as Hc.
    destruct (N.eqb_spec (utf8_len c + blen p) 0) as [E|_]; [lia|].
    destruct (N.leb_spec (utf8_len c) (utf8_len c + blen p)) as [_|E]; [|lia].
    replace (utf8_len c + blen p - utf8_len c) with (blen p) by lia. exact IH.
Qed.

Lemma bdrop_prefix p l : prefix_of p l -> exists r, l = p ++ r /\ bdrop l (blen p) = Some r.
Proof. intros [r H]. exists r. split; [exact H|]. subst l. apply bdrop_app. Qed.

Lemma bdrop_Forall (P : char -> Prop) s : forall a r, Forall P s -> bdrop s a = Some r -> Forall P r.
Proof.
  induction s as [|c s IH]; intros a r Hs H.
  - cbn [bdrop] in H. destruct (a =? 0); [|discriminate]. inversion H; subst. constructor.
  - cbn [bdrop] in H. destruct (a =? 0).
    + inversion H; subst. exact Hs.
    + destruct (utf8_len c <=? a); [|discriminate]. inversion Hs; subst. eapply IH; eauto.
Qed.

(* ------------------------------------------------------------------ *)
(* span_lf, split_lf, lines                                            *)
(* ------------------------------------------------------------------ *)

Lemma span_lf_some s : forall a b, span_lf s = Some (a, b) -> s = a ++ LF :: b /\ lf_free a.
Proof.
  induction s as [|c r IH]; intros a b H; cbn [span_lf] in H; [discriminate|].
  destruct (N.eqb_spec c LF) as [E|E].
  - inversion H; subst. split; [reflexivity|constructor].
  - destruct (span_lf r) as [[a' b']|] eqn:S; [|discriminate].
    inversion H; subst. destruct (IH _ _ eq_refl) as [E1 E2]. split.
    + cbn [app]. f_equal. exact E1.
    + constructor; assumption.
Qed.

Lemma span_lf_none s : span_lf s = None -> lf_free s.
Proof.
  induction s as [|c r IH]; intros H; [constructor|]. cbn [span_lf] in H.
  destruct (N.eqb_spec c LF) as [E|E]; [discriminate|].
  destruct (span_lf r) as [[a' b']|] eqn:S; [discriminate|].
  constructor; [exact E|]. apply IH. reflexivity.
Qed.

Lemma split_lf_not_nil s : split_lf s <> [].
Proof.
  destruct s as [|c r]; cbn [split_lf]; [discriminate|].
  destruct (c =? LF); [discriminate|]. destruct (split_lf r); discriminate.
Qed.

Lemma split_lf_app a b : lf_free a -> split_lf (a ++ LF :: b) = a :: split_lf b.
Proof.
  induction 1 as [|c a Hc _ IH]; cbn [app split_lf].
  - change (LF =? LF) with true. reflexivity.
  - destruct (N.eqb_spec c LF) as [E|_]; [contradiction|]. rewrite IH. reflexivity.
Qed.

Lemma split_lf_free s : lf_free s -> split_lf s = [s].
Proof.
  induction 1 as [|c a Hc _ IH]; cbn [split_lf]; [reflexivity|].
  destruct (N.eqb_spec c LF) as [E|_]; [contradiction|]. rewrite IH. reflexivity.
Qed.

Lemma split_lf_pieces_free s : Forall lf_free (split_lf s).
Proof.
  induction s as [|c r IH]; cbn [split_lf].
  - repeat constructor.
  - destruct (N.eqb_spec c LF) as [E|E].
    + constructor; [constructor|exact IH].
    + destruct (split_lf r) as [|p ps]; cbn [cons_first].
      * repeat constructor. exact E.
      * inversion IH; subst. constructor; [constructor; assumption|assumption].
Qed.

Lemma lines_of_pieces_cons p ps :
  ps <> [] -> lines_of_pieces (p :: ps) = strip_cr p :: lines_of_pieces ps.
Proof. destruct ps; [congruence|reflexivity]. Qed.

Lemma lines_app a b : lf_free a -> lines (a ++ LF :: b) = strip_cr a :: lines b.
Proof.
  intros H. unfold lines. rewrite split_lf_app by exact H.
  apply lines_of_pieces_cons, split_lf_not_nil.
Qed.

Lemma lines_free s : lf_free s -> lines s = match s with [] => [] | _ => [s] end.
Proof. intros H. unfold lines. rewrite split_lf_free by exact H. reflexivity. Qed.

Lemma strip_cr_last s :
  strip_cr s = if match last_opt s with Some c => c =? CR | None => false end
               then removelast s else s.
Proof.
  induction s as [|c r IH]; [reflexivity|].
  destruct r as [|d r'].
  - cbn [strip_cr last_opt removelast]. destruct (c =? CR); reflexivity.
  - change (strip_cr (c :: d :: r')) with (c :: strip_cr (d :: r')).
    change (last_opt (c :: d :: r')) with (last_opt (d :: r')).
    change (removelast (c :: d :: r')) with (c :: removelast (d :: r')).
    rewrite IH. destruct (match last_opt (d :: r') with Some c0 => c0 =? CR | None => false end); reflexivity.
Qed.

Lemma strip_cr_Forall (P : char -> Prop) s : Forall P s -> Forall P (strip_cr s).
Proof.
  induction s as [|c r IH]; intros H; [constructor|].
  destruct r as [|d r'].
  - cbn [strip_cr]. destruct (c =? CR); [constructor|exact H].
  - change (strip_cr (c :: d :: r')) with (c :: strip_cr (d :: r')).
    inversion H; subst. constructor; auto.
Qed.

Lemma lines_of_pieces_free ps : Forall lf_free ps -> Forall lf_free (lines_of_pieces ps).
Proof.
  induction ps as [|p ps IH]; intros H; [constructor|].
  inversion H; subst. destruct ps as [|q ps'].
  - cbn [lines_of_pieces]. destruct p; [constructor|]. constructor; [assumption|constructor].
  - rewrite lines_of_pieces_cons by discriminate. constructor; [|auto].
    apply strip_cr_Forall. assumption.
Qed.

Lemma lines_lf_free s : Forall lf_free (lines s).
Proof. apply lines_of_pieces_free, split_lf_pieces_free. Qed.

(* ------------------------------------------------------------------ *)
(* Part A.1 / A.2 : NonEmptyLines, fuel-free                           *)
(* ------------------------------------------------------------------ *)

(* what NonEmptyLines yields for one LF-terminated piece *)
Definition term_entry (p : str) : list (str * option line_ending) :=
  match p with
  | [] => []
  | [c] => if c =? CR then [] else [(p, Some LE_LF)]
  | _ => [if match last_opt p with Some c => c =? CR | None => false end
          then (removelast p, Some LE_CRLF) else (p, Some LE_LF)]
  end.

(* NonEmptyLines as a function of the LF-separated pieces of the text *)
Fixpoint nel_of_pieces (l : list str) : list (str * option line_ending) :=
  match l with
  | [] => []
  | p :: ps => match ps with
               | [] => match p with [] => [] | _ => [(p, None)] end
               | _ => term_entry p ++ nel_of_pieces ps
               end
  end.

Definition nel (s : str) : list (str * option line_ending) := nel_of_pieces (split_lf s).

Lemma nel_of_pieces_cons p ps :
  ps <> [] -> nel_of_pieces (p :: ps) = term_entry p ++ nel_of_pieces ps.
Proof. destruct ps; [congruence|reflexivity]. Qed.

Lemma nel_app a b : lf_free a -> nel (a ++ LF :: b) = term_entry a ++ nel b.
Proof.
  intros H. unfold nel. rewrite split_lf_app by exact H.
  apply nel_of_pieces_cons, split_lf_not_nil.
Qed.

Lemma nel_free s : lf_free s -> nel s = match s with [] => [] | _ => [(s, None)] end.
Proof. intros H. unfold nel. rewrite split_lf_free by exact H. reflexivity. Qed.

(* the fuel of the model suffices, and the result is [nel] *)
Lemma non_empty_lines_nel : forall f s, (length s < f)%nat -> non_empty_lines f s = Some (nel s).
Proof.
  induction f as [|f IH]; intros s Hf; [lia|].
  cbn [non_empty_lines]. destruct (span_lf s) as [[a b]|] eqn:S.
  - destruct (span_lf_some _ _ _ S) as [E Ha]. subst s.
    rewrite nel_app by exact Ha.
    assert (Hb : (length b < f)%nat).
    { rewrite app_length in Hf. cbn [length] in Hf. lia. }
    rewrite (IH b Hb).
    destruct a as [|c [|d r]].
    + reflexivity.
    + cbn [term_entry]. destruct (c =? CR); reflexivity.
    + reflexivity.
  - rewrite (nel_free s (span_lf_none s S)). destruct s; reflexivity.
Qed.

(* A.1 (fuel) *)
Theorem non_empty_lines_total text :
  non_empty_lines (S (length text)) text = Some (nel text).
Proof. apply non_empty_lines_nel. lia. Qed.

Lemma term_entry_fst p : map fst (term_entry p) = filter nonempty [strip_cr p].
Proof.
  destruct p as [|c [|d r]].
  - reflexivity.
  - cbn [term_entry strip_cr]. destruct (c =? CR); reflexivity.
  - rewrite strip_cr_last. cbn [term_entry].
    destruct (match last_opt (c :: d :: r) with Some c0 => c0 =? CR | None => false end); reflexivity.
Qed.

Lemma nel_of_pieces_fst ps :
  map fst (nel_of_pieces ps) = filter nonempty (lines_of_pieces ps).
Proof.
  induction ps as [|p ps IH]; [reflexivity|].
  destruct ps as [|q ps'].
  - cbn [nel_of_pieces lines_of_pieces]. destruct p; reflexivity.
  - rewrite nel_of_pieces_cons, lines_of_pieces_cons by discriminate.
    rewrite map_app, IH, term_entry_fst.
    change (strip_cr p :: lines_of_pieces (q :: ps')) with ([strip_cr p] ++ lines_of_pieces (q :: ps')).
    rewrite filter_app. reflexivity.
Qed.

(* A.2: the two line iterators agree on the non-empty lines (no corner cases:
   checked exhaustively by vm_compute up to length 7 over {a, CR, LF, SP}, then proved) *)
Theorem nel_lines text : map fst (nel text) = filter nonempty (lines text).
Proof. apply nel_of_pieces_fst. Qed.

(* A.1 (shape of the entries) *)
Theorem nel_entries text :
  Forall (fun e => fst e <> [] /\ lf_free (fst e)) (nel text).
Proof.
  apply Forall_forall. intros [l e] Hin. cbn [fst].
  assert (H : In l (filter nonempty (lines text))).
  { rewrite <- nel_lines. change l with (fst (l, e)). apply in_map. exact Hin. }
  apply filter_In in H. destruct H as [H1 H2]. split.
  - destruct l; [discriminate|discriminate].
  - pose proof (lines_lf_free text) as HF. rewrite Forall_forall in HF. auto.
Qed.

(* ------------------------------------------------------------------ *)
(* Part A.3 : the indents are prefixes, unfill never fails             *)
(* ------------------------------------------------------------------ *)

Lemma take_while_prefix p s : prefix_of (take_while p s) s.
Proof.
  induction s as [|c r IH]; cbn [take_while]; [apply prefix_of_nil|].
  destruct (p c); [|apply prefix_of_nil].
  destruct IH as [t Ht]. exists t. cbn [app]. f_equal. exact Ht.
Qed.

Lemma take_while_all p s : Forall (fun c => p c = true) (take_while p s).
Proof.
  induction s as [|c r IH]; cbn [take_while]; [constructor|].
  destruct (p c) eqn:E; [|constructor]. constructor; assumption.
Qed.

Lemma zip_mismatch_some a : forall b p,
  zip_mismatch a b = Some p -> prefix_of p a /\ prefix_of p b.
Proof.
  induction a as [|x a IH]; intros b p H; [discriminate|].
  destruct b as [|y b]; [discriminate|]. cbn [zip_mismatch] in H.
  destruct (N.eqb_spec x y) as [E|E].
  - destruct (zip_mismatch a b) as [q|] eqn:Z; [|discriminate].
    inversion H; subst. destruct (IH _ _ Z) as [[r1 H1] [r2 H2]].
    split; [exists r1|exists r2]; cbn [app]; f_equal; assumption.
  - inversion H; subst. split; apply prefix_of_nil.
Qed.

Lemma zip_mismatch_none a : forall b,
  zip_mismatch a b = None -> prefix_of a b \/ prefix_of b a.
Proof.
  induction a as [|x a IH]; intros b H; [left; apply prefix_of_nil|].
  destruct b as [|y b]; [right; apply prefix_of_nil|]. cbn [zip_mismatch] in H.
  destruct (N.eqb_spec x y) as [E|E]; [|discriminate].
  destruct (zip_mismatch a b) as [q|] eqn:Z; [discriminate|]. subst y.
  destruct (IH _ Z) as [[r Hr]|[r Hr]]; [left|right]; exists r; cbn [app]; f_equal; exact Hr.
Qed.

(* the narrowing step of the first loop yields a common prefix *)
Lemma narrow_prefix prefix si :
  let si1 := match zip_mismatch prefix si with Some p => p | None => si end in
  let si2 := if blen prefix <? blen si1 then prefix else si1 in
  prefix_of si2 prefix /\ prefix_of si2 si.
Proof.
  cbv zeta. destruct (zip_mismatch prefix si) as [p|] eqn:Z.
  - destruct (zip_mismatch_some _ _ _ Z) as [H1 H2].
    destruct (N.ltb_spec (blen prefix) (blen p)) as [L|L].
    + pose proof (prefix_of_blen _ _ H1). lia.
    + split; assumption.
  - destruct (N.ltb_spec (blen prefix) (blen si)) as [L|L].
    + split; [apply prefix_of_refl|].
      destruct (zip_mismatch_none _ _ Z) as [H|H]; [exact H|].
      pose proof (prefix_of_blen _ _ H). lia.
    + split; [|apply prefix_of_refl].
      destruct (zip_mismatch_none _ _ Z) as [H|H]; [|exact H].
      destruct H as [r Hr]. subst si. rewrite blen_app in L.
      destruct r as [|c r]; [rewrite app_nil_r; apply prefix_of_refl|].
      cbn [blen] in L. pose proof (utf8_len_ge1 c). lia.
Qed.

Section Unfill.
Variable cw : char -> N.

Definition max_width (ls : list str) : N := fold_right N.max 0 (map (dw cw) ls).

Lemma scan_ge2 : forall ls idx w ii si w' ii' si',
  (2 <= idx)%nat -> unfill_scan cw ls idx w ii si = (w', ii', si') ->
  w' = N.max w (max_width ls) /\ ii' = ii /\ prefix_of si' si /\ Forall (prefix_of si') ls.
Proof.
  induction ls as [|l r IH]; intros idx w ii si w' ii' si' Hi H.
  - cbn [unfill_scan] in H. inversion H; subst. unfold max_width. cbn [map fold_right].
    split; [lia|]. split; [reflexivity|]. split; [apply prefix_of_refl|constructor].
  - destruct idx as [|[|k]]; [lia|lia|]. cbn [unfill_scan] in H.
    apply IH in H; [|lia]. destruct H as [Hw [Hii [Hsi Hall]]].
    destruct (narrow_prefix (take_while is_prefix_char l) si) as [N1 N2].
    split; [|split; [exact Hii|split]].
    + rewrite Hw. unfold max_width. cbn [map fold_right]. lia.
    + eapply prefix_of_trans; [exact Hsi|exact N2].
    + constructor; [|exact Hall].
      eapply prefix_of_trans; [exact Hsi|]. eapply prefix_of_trans; [exact N1|].
      apply take_while_prefix.
Qed.

Lemma scan_spec ls w ii si :
  unfill_scan cw ls 0 0 [] [] = (w, ii, si) ->
  w = max_width ls /\ prefix_of ii (hd [] ls) /\ Forall (prefix_of si) (tl ls) /\
  pchars ii /\ pchars si.
Proof.
  intros H. destruct ls as [|l0 r].
  - cbn [unfill_scan] in H. inversion H; subst. cbn [hd tl].
    repeat split; try apply prefix_of_nil; constructor.
  - cbn [unfill_scan] in H. destruct r as [|l1 r'].
    + cbn [unfill_scan] in H. inversion H; subst. cbn [hd tl].
      split; [unfold max_width; cbn [map fold_right]; lia|].
      split; [apply take_while_prefix|]. split; [constructor|].
      split; [apply take_while_all|constructor].
    + cbn [unfill_scan] in H. apply scan_ge2 in H; [|lia].
      destruct H as [Hw [Hii [Hsi Hall]]]. subst ii. cbn [hd tl].
      split; [rewrite Hw; unfold max_width; cbn [map fold_right]; lia|].
      split; [apply take_while_prefix|].
      split; [constructor; [|exact Hall]|].
      * eapply prefix_of_trans; [exact Hsi|apply take_while_prefix].
      * split; [apply take_while_all|].
        eapply prefix_of_Forall; [exact Hsi|apply take_while_all].
Qed.

(* the second loop succeeds when the indents are prefixes *)
Lemma join_rest_some ii si : forall nls det,
  Forall (fun e => prefix_of si (fst e)) nls ->
  exists body d, unfill_join nls false ii si det = Some (body, d).
Proof.
  induction nls as [|[l e] r IH]; intros det H.
  - eexists _, _. reflexivity.
  - inversion H as [|x y H1 H2]; subst. cbn [fst] in H1. cbn [unfill_join].
    destruct (bdrop_prefix _ _ H1) as [b [_ Hb]]. rewrite Hb.
    destruct (IH (match det, e with
                  | None, Some _ => e | Some LE_CRLF, Some LE_LF => e | _, _ => det end) H2)
      as [body [d Hd]].
    rewrite Hd. eexists _, _. reflexivity.
Qed.

Lemma join_first_some ii si nls det :
  prefix_of ii (hd [] (map fst nls)) ->
  Forall (fun e => prefix_of si (fst e)) (tl nls) ->
  exists body d, unfill_join nls true ii si det = Some (body, d).
Proof.
  intros H1 H2. destruct nls as [|[l e] r].
  - eexists _, _. reflexivity.
  - cbn [map fst hd] in H1. cbn [tl] in H2. cbn [unfill_join].
    destruct (bdrop_prefix _ _ H1) as [b [_ Hb]]. rewrite Hb.
    destruct (join_rest_some ii si r (match det, e with
                  | None, Some _ => e | Some LE_CRLF, Some LE_LF => e | _, _ => det end) H2)
      as [body [d Hd]].
    rewrite Hd. eexists _, _. reflexivity.
Qed.

(* relating the prefix facts about [lines] to the entries of [nel] *)
Lemma filter_prefix_split ii si (ls : list str) :
  prefix_of ii (hd [] ls) -> Forall (prefix_of si) (tl ls) ->
  prefix_of ii (hd [] (filter nonempty ls)) /\ Forall (prefix_of si) (tl (filter nonempty ls)).
Proof.
  intros H1 H2. destruct ls as [|l0 r]; [split; [exact H1|constructor]|].
  cbn [hd tl] in H1, H2. cbn [filter].
  assert (HF : Forall (prefix_of si) (filter nonempty r)).
  { apply Forall_forall. intros x Hx. apply filter_In in Hx.
    rewrite Forall_forall in H2. apply H2. exact (proj1 Hx). }
  destruct l0 as [|c l0]; cbn [nonempty].
  - destruct H1 as [t Ht]. destruct ii; [|discriminate].
    split; [apply prefix_of_nil|].
    destruct (filter nonempty r) as [|x xs]; [constructor|]. inversion HF; assumption.
  - cbn [hd tl]. split; assumption.
Qed.

Lemma Forall_map_fst (P : str -> Prop) (l : list (str * option line_ending)) :
  Forall P (map fst l) -> Forall (fun e => P (fst e)) l.
Proof. intros H. apply Forall_forall. intros e He. rewrite Forall_forall in H. apply H, in_map, He. Qed.

Lemma tl_map {A B} (f : A -> B) l : tl (map f l) = map f (tl l).
Proof. destruct l; reflexivity. Qed.
(* ------------------------------------------------------------------ *)
(* The detected line ending as a fold                                  *)
(* ------------------------------------------------------------------ *)

Definition det_step (det ending : option line_ending) : option line_ending :=
  match det, ending with
  | None, Some _ => ending
  | Some LE_CRLF, Some LE_LF => ending
  | _, _ => det
  end.

Definition any_some (es : list (option line_ending)) : bool :=
  existsb (fun e => match e with Some _ => true | None => false end) es.
Definition all_crlf (es : list (option line_ending)) : bool :=
  forallb (fun e => match e with Some LE_LF => false | _ => true end) es.

Lemma fold_det_lf es : fold_left det_step es (Some LE_LF) = Some LE_LF.
Proof. induction es as [|[[|]|] es IH]; cbn [fold_left det_step]; auto. Qed.

Lemma fold_det_crlf es :
  fold_left det_step es (Some LE_CRLF) = Some (if all_crlf es then LE_CRLF else LE_LF).
Proof.
  induction es as [|[[|]|] es IH]; cbn [fold_left det_step all_crlf forallb andb]; auto.
  apply fold_det_lf.
Qed.

Lemma fold_det_none es :
  fold_left det_step es None =
  if any_some es then Some (if all_crlf es then LE_CRLF else LE_LF) else None.
Proof.
  induction es as [|[[|]|] es IH]; cbn [fold_left det_step all_crlf forallb andb any_some existsb orb]; auto.
  - apply fold_det_lf.
  - apply fold_det_crlf.
Qed.

Lemma join_spec ii si : forall nls first det body d,
  unfill_join nls first ii si det = Some (body, d) ->
  d = fold_left det_step (map snd nls) det /\
  (Forall (fun e => lf_free (fst e)) nls -> lf_free body).
Proof.
  induction nls as [|[l e] r IH]; intros first det body d H.
  - cbn [unfill_join] in H. inversion H; subst. split; [reflexivity|constructor].
  - cbn [unfill_join] in H.
    destruct (bdrop l (blen (if first then ii else si))) as [b|] eqn:B; [|discriminate].
    change (match det with
            | Some LE_LF => det
            | Some LE_CRLF => match e with Some LE_LF => e | _ => det end
            | None => match e with Some _ => e | None => det end
            end) with (det_step det e) in H.
    destruct (unfill_join r false ii si (det_step det e)) as [[rest d']|] eqn:J; [|discriminate].
    inversion H; subst. destruct (IH _ _ _ _ J) as [Hd Hb]. split.
    + cbn [map snd fold_left]. exact Hd.
    + intros HF. inversion HF as [|x y H1 H2]; subst. cbn [fst] in H1.
      pose proof (bdrop_Forall _ _ _ _ H1 B) as Hb'.
      unfold lf_free. apply Forall_app. split; [|apply Hb; exact H2].
      destruct first; [exact Hb'|]. constructor; [discriminate|exact Hb'].
Qed.

(* ------------------------------------------------------------------ *)
(* Part A, main statements                                             *)
(* ------------------------------------------------------------------ *)

Definition detected (text : str) : option line_ending :=
  fold_left det_step (map snd (nel text)) None.

(* a fully unfolded view of unfill, used by everything below *)
Lemma unfill_unfold text w ii si body d :
  unfill_scan cw (lines text) 0 0 [] [] = (w, ii, si) ->
  unfill_join (nel text) true ii si None = Some (body, d) ->
  unfill cw text =
  Some (mkUnfilled (body ++ match d with
                            | Some le => if ends_with text (le_str le) then le_str le else []
                            | None => [] end)
                   w ii si (match d with Some le => le | None => LE_LF end)).
Proof.
  intros HS HJ. unfold unfill. rewrite HS, non_empty_lines_total, HJ. reflexivity.
Qed.

(* A.3 (first half): unfill never fails (no-panic) *)
Theorem unfill_total text : exists u, unfill cw text = Some u.
Proof.
  destruct (unfill_scan cw (lines text) 0 0 [] []) as [[w ii] si] eqn:HS.
  destruct (scan_spec _ _ _ _ HS) as [_ [H1 [H2 _]]].
  destruct (filter_prefix_split _ _ _ H1 H2) as [F1 F2].
  rewrite <- nel_lines in F1, F2.
  destruct (join_first_some ii si (nel text) None F1) as [body [d HJ]].
  { apply Forall_map_fst. rewrite <- tl_map. exact F2. }
  eexists. apply (unfill_unfold _ _ _ _ _ _ HS HJ).
Qed.

(* A.3, A.4, A.6 and the value of u_le *)
Theorem unfill_structure text u :
  unfill cw text = Some u ->
  (* indents: prefix characters only, prefixes of the lines they are cut from *)
  pchars (u_ii u) /\ pchars (u_si u) /\
  prefix_of (u_ii u) (hd [] (lines text)) /\ Forall (prefix_of (u_si u)) (tl (lines text)) /\
  prefix_of (u_ii u) (hd [] (map fst (nel text))) /\
  Forall (prefix_of (u_si u)) (tl (map fst (nel text))) /\
  (* text: LF-free body plus possibly the final line ending *)
  (exists body tail, u_text u = body ++ tail /\ lf_free body /\
     (tail = [] \/ (tail = le_str (u_le u) /\ ends_with text tail = true))) /\
  (* width and line ending *)
  u_width u = max_width (lines text) /\
  u_le u = match detected text with Some le => le | None => LE_LF end.
Proof.
  intros HU.
  destruct (unfill_scan cw (lines text) 0 0 [] []) as [[w ii] si] eqn:HS.
  destruct (scan_spec _ _ _ _ HS) as [Hw [H1 [H2 [P1 P2]]]].
  destruct (filter_prefix_split _ _ _ H1 H2) as [F1 F2].
  rewrite <- nel_lines in F1, F2.
  destruct (join_first_some ii si (nel text) None F1) as [body [d HJ]].
  { apply Forall_map_fst. rewrite <- tl_map. exact F2. }
  rewrite (unfill_unfold _ _ _ _ _ _ HS HJ) in HU. inversion HU; subst u; clear HU.
  cbn [u_text u_width u_ii u_si u_le].
  destruct (join_spec _ _ _ _ _ _ _ HJ) as [Hd Hb].
  repeat (split; [assumption|]).
  split; [|split; [exact Hw|]].
  - exists body. eexists. split; [reflexivity|]. split.
    + apply Hb. pose proof (nel_entries text) as HE.
      apply Forall_forall. intros e He. rewrite Forall_forall in HE. apply HE, He.
    + destruct d as [le|]; [|left; reflexivity].
      destruct (ends_with text (le_str le)) eqn:EW; [right|left; reflexivity].
      split; [reflexivity|exact EW].
  - unfold detected. rewrite <- Hd. reflexivity.
Qed.

(* A.5, for arbitrary text: CRLF is reported iff NonEmptyLines yields at least one
   terminated line and none of the terminated lines it yields ends in a bare LF *)
Theorem unfill_le_crlf_general text u :
  unfill cw text = Some u ->
  (u_le u = LE_CRLF <->
   any_some (map snd (nel text)) = true /\ all_crlf (map snd (nel text)) = true).
Proof.
  intros HU. destruct (unfill_structure text u HU) as [_ [_ [_ [_ [_ [_ [_ [_ HL]]]]]]]].
  rewrite HL. unfold detected. rewrite fold_det_none.
  destruct (any_some (map snd (nel text))), (all_crlf (map snd (nel text)));
    split; try discriminate; try (intros [? ?]; discriminate); auto.
Qed.

(* A.5: CRLF is reported iff there is at least one line ending and all are CRLF,
   for text without empty lines *)
Definition ends_cr (p : str) : bool :=
  match last_opt p with Some c => c =? CR | None => false end.
Definition proper_piece (p : str) : Prop := p <> [] /\ p <> [CR].

Lemma term_entry_proper p :
  proper_piece p -> map snd (term_entry p) = [Some (if ends_cr p then LE_CRLF else LE_LF)].
Proof.
  intros [H1 H2]. destruct p as [|c [|d r]]; [congruence| |].
  - cbn [term_entry]. unfold ends_cr. cbn [last_opt].
    destruct (N.eqb_spec c CR) as [E|E]; [subst; congruence|reflexivity].
  - unfold ends_cr. cbn [term_entry].
    destruct (match last_opt (c :: d :: r) with Some c0 => c0 =? CR | None => false end); reflexivity.
Qed.

Lemma pieces_endings ps :
  Forall proper_piece (removelast ps) ->
  any_some (map snd (nel_of_pieces ps)) = (match removelast ps with [] => false | _ => true end) /\
  all_crlf (map snd (nel_of_pieces ps)) = forallb ends_cr (removelast ps).
Proof.
  induction ps as [|p ps IH]; intros H; [split; reflexivity|].
  destruct ps as [|q ps'].
  - cbn [removelast nel_of_pieces]. destruct p; split; reflexivity.
  - change (removelast (p :: q :: ps')) with (p :: removelast (q :: ps')) in *.
    inversion H as [|x y H1 H2]; subst. destruct (IH H2) as [IH1 IH2].
    rewrite nel_of_pieces_cons by discriminate.
    rewrite map_app, (term_entry_proper p H1). cbn [app].
    split.
    + reflexivity.
    + unfold all_crlf in *. cbn [forallb]. rewrite IH2.
      destruct (ends_cr p); reflexivity.
Qed.

Theorem unfill_le_crlf text u :
  unfill cw text = Some u ->
  Forall proper_piece (removelast (split_lf text)) ->
  (u_le u = LE_CRLF <->
   removelast (split_lf text) <> [] /\
   Forall (fun p => last_opt p = Some CR) (removelast (split_lf text))).
Proof.
  intros HU HP. destruct (unfill_structure text u HU) as [_ [_ [_ [_ [_ [_ [_ [_ HL]]]]]]]].
  rewrite HL. unfold detected, nel. rewrite fold_det_none.
  destruct (pieces_endings _ HP) as [E1 E2]. rewrite E1, E2.
  set (init := removelast (split_lf text)). clearbody init.
  assert (HF : forallb ends_cr init = true <-> Forall (fun p => last_opt p = Some CR) init).
  { rewrite forallb_forall, Forall_forall. split; intros HA x Hx; specialize (HA x Hx).
    - unfold ends_cr in HA. destruct (last_opt x) as [c|]; [|discriminate].
      apply N.eqb_eq in HA. congruence.
    - unfold ends_cr. rewrite HA. reflexivity. }
  destruct init as [|p init'].
  - split; [discriminate|]. intros [HN _]. congruence.
  - destruct (forallb ends_cr (p :: init')) eqn:EF.
    + split; [|reflexivity]. intros _. split; [discriminate|]. apply HF. reflexivity.
    + split; [discriminate|]. intros [_ HA]. apply HF in HA. discriminate.
Qed.

(* ------------------------------------------------------------------ *)
(* Part B : round trip on the shape produced by fill                   *)
(* ------------------------------------------------------------------ *)

Fixpoint mapi_from {A B} (f : nat -> A -> B) (k : nat) (l : list A) : list B :=
  match l with [] => [] | x :: r => f k x :: mapi_from f (S k) r end.
Definition mapi {A B} (f : nat -> A -> B) (l : list A) : list B := mapi_from f 0 l.

(* line k = indent_k ++ words of group k joined by single spaces *)
Definition filled_lines (ii si : str) (groups : list (list str)) : list str :=
  mapi (fun k g => (match k with O => ii | _ => si end) ++ join [SP] g) groups.
Definition filled (ii si : str) (le : line_ending) (groups : list (list str)) : str :=
  join (le_str le) (filled_lines ii si groups).

(* words: non-empty, no SP/CR/LF, first char not a prefix char *)
Definition word_ok (w : str) : Prop :=
  Forall (fun c => c <> SP /\ c <> CR /\ c <> LF) w /\
  exists c r, w = c :: r /\ is_prefix_char c = false.
Definition group_ok (g : list str) : Prop := g <> [] /\ Forall word_ok g.

Definition clean (s : str) : Prop := Forall (fun c => c <> CR /\ c <> LF) s.
Definition good_line (l : str) : Prop := l <> [] /\ clean l.
Definition cr_of (le : line_ending) : str := match le with LE_LF => [] | LE_CRLF => [CR] end.

Lemma le_str_cr le : le_str le = cr_of le ++ [LF].
Proof. destruct le; reflexivity. Qed.

Lemma mapi_from_ge1 {A B} (f : nat -> A -> B) (g : A -> B) :
  (forall k x, (1 <= k)%nat -> f k x = g x) ->
  forall l k, (1 <= k)%nat -> mapi_from f k l = map g l.
Proof.
  intros Hf. induction l as [|x r IH]; intros k Hk; [reflexivity|].
  cbn [mapi_from map]. rewrite Hf by exact Hk. rewrite IH by lia. reflexivity.
Qed.

Lemma filled_lines_cons ii si g gs :
  filled_lines ii si (g :: gs) = (ii ++ join [SP] g) :: map (fun g' => si ++ join [SP] g') gs.
Proof.
  unfold filled_lines, mapi. cbn [mapi_from]. f_equal.
  apply mapi_from_ge1; [|lia]. intros k x Hk. destruct k; [lia|reflexivity].
Qed.

Lemma pchars_clean s : pchars s -> clean s.
Proof.
  apply Forall_impl. intros c H. split; intros E; subst c; vm_compute in H; discriminate.
Qed.

Lemma clean_lf_free s : clean s -> lf_free s.
Proof. apply Forall_impl. intros c [_ H]. exact H. Qed.

Lemma word_clean w : word_ok w -> clean w.
Proof. intros [H _]. revert H. apply Forall_impl. intros c [_ [H1 H2]]. split; assumption. Qed.

Lemma join_sp_clean g : Forall word_ok g -> clean (join [SP] g).
Proof.
  induction g as [|w r IH]; intros H; [constructor|].
  inversion H as [|x y H1 H2]; subst. destruct r as [|w' r'].
  - cbn [join]. apply word_clean, H1.
  - change (join [SP] (w :: w' :: r')) with (w ++ [SP] ++ join [SP] (w' :: r')).
    unfold clean. rewrite !Forall_app. split; [apply word_clean, H1|]. split; [|apply IH, H2].
    constructor; [|constructor]. split; discriminate.
Qed.

Lemma join_sp_head g :
  group_ok g -> exists c r, join [SP] g = c :: r /\ is_prefix_char c = false.
Proof.
  intros [Hne HF]. destruct g as [|w r]; [congruence|].
  inversion HF as [|x y H1 H2]; subst. destruct H1 as [_ [c [t [E Hc]]]]. subst w.
  destruct r as [|w' r'].
  - exists c, t. split; [reflexivity|exact Hc].
  - exists c. eexists. split; [|exact Hc].
    change (join [SP] ((c :: t) :: w' :: r')) with ((c :: t) ++ [SP] ++ join [SP] (w' :: r')).
    reflexivity.
Qed.

Lemma take_while_pchars s c r :
  pchars s -> is_prefix_char c = false -> take_while is_prefix_char (s ++ c :: r) = s.
Proof.
  intros H Hc. induction H as [|x s Hx _ IH]; cbn [app take_while].
  - rewrite Hc. reflexivity.
  - rewrite Hx, IH. reflexivity.
Qed.

Lemma last_opt_app l c : last_opt (l ++ [c]) = Some c.
Proof.
  induction l as [|x l IH]; [reflexivity|].
  cbn [app]. destruct l as [|y l']; [reflexivity|].
  change (last_opt (x :: (y :: l') ++ [c])) with (last_opt ((y :: l') ++ [c])). exact IH.
Qed.

Lemma good_line_ends_cr l : good_line l -> ends_cr l = false.
Proof.
  intros [Hne Hc]. destruct (exists_last Hne) as [l' [a E]]. subst l.
  unfold ends_cr. rewrite last_opt_app. unfold clean in Hc. rewrite Forall_app in Hc.
  destruct Hc as [_ Hc]. inversion Hc as [|x y [H1 _] _]; subst.
  apply N.eqb_neq. exact H1.
Qed.

Lemma strip_cr_good l le : good_line l -> strip_cr (l ++ cr_of le) = l.
Proof.
  intros H. rewrite strip_cr_last. destruct le; cbn [cr_of].
  - rewrite app_nil_r. fold (ends_cr l). rewrite (good_line_ends_cr l H). reflexivity.
  - rewrite last_opt_app. change (CR =? CR) with true. cbn iota. apply removelast_last.
Qed.

Lemma term_entry_good l le : good_line l -> term_entry (l ++ cr_of le) = [(l, Some le)].
Proof.
  intros H. pose proof (good_line_ends_cr l H) as HE. destruct H as [Hne Hc].
  destruct le; cbn [cr_of].
  - rewrite app_nil_r. destruct l as [|c [|d r]]; [congruence| |].
    + cbn [term_entry]. unfold ends_cr in HE. cbn [last_opt] in HE. rewrite HE. reflexivity.
    + cbn [term_entry]. fold (ends_cr (c :: d :: r)). rewrite HE. reflexivity.
  - destruct l as [|c l']; [congruence|].
    assert (E : term_entry ((c :: l') ++ [CR]) =
                [if ends_cr ((c :: l') ++ [CR]) then (removelast ((c :: l') ++ [CR]), Some LE_CRLF)
                 else ((c :: l') ++ [CR], Some LE_LF)]).
    { destruct l'; reflexivity. }
    rewrite E. unfold ends_cr. rewrite last_opt_app. change (CR =? CR) with true. cbn iota.
    rewrite removelast_last. reflexivity.
Qed.

(* NonEmptyLines of well-formed joined lines: every line tagged with [le], the last
   one with None when there is no trailing line ending *)
Fixpoint tag (le : line_ending) (ht : bool) (Ls : list str) : list (str * option line_ending) :=
  match Ls with
  | [] => []
  | l :: r => match r with
              | [] => [(l, if ht then Some le else None)]
              | _ => (l, Some le) :: tag le ht r
              end
  end.

Lemma tag_cons le ht l r :
  tag le ht (l :: r) =
  (l, match r with [] => if ht then Some le else None | _ => Some le end) :: tag le ht r.
Proof. destruct r; reflexivity. Qed.

Lemma tag_map_fst le ht Ls : map fst (tag le ht Ls) = Ls.
Proof.
  induction Ls as [|l r IH]; [reflexivity|]. rewrite tag_cons. cbn [map fst]. rewrite IH. reflexivity.
Qed.

Lemma tag_map le ht (f : str -> str) Ls :
  tag le ht (map f Ls) = map (fun e => (f (fst e), snd e)) (tag le ht Ls).
Proof.
  induction Ls as [|l r IH]; [reflexivity|]. cbn [map]. rewrite !tag_cons. cbn [map fst snd].
  rewrite IH. destruct r; reflexivity.
Qed.

Lemma lines_joined le (ht : bool) : forall Ls : list str,
  Ls <> [] -> Forall good_line Ls ->
  lines (join (le_str le) Ls ++ (if ht then le_str le else [])) = Ls /\
  nel (join (le_str le) Ls ++ (if ht then le_str le else [])) = tag le ht Ls.
Proof.
  induction Ls as [|l r IH]; intros Hne HF; [congruence|].
  inversion HF as [|x y H1 H2]; subst.
  assert (Hlf : lf_free (l ++ cr_of le)).
  { unfold lf_free. apply Forall_app. split; [apply clean_lf_free, H1|].
    destruct le; cbn [cr_of]; repeat constructor. discriminate. }
  destruct r as [|l' r'].
  - cbn [join tag]. destruct ht.
    + rewrite le_str_cr.
      replace (l ++ cr_of le ++ [LF]) with ((l ++ cr_of le) ++ LF :: []) by (now rewrite <- app_assoc).
      rewrite lines_app, nel_app by exact Hlf.
      rewrite strip_cr_good, term_entry_good by exact H1. split; reflexivity.
    + rewrite app_nil_r. destruct H1 as [Hl Hc].
      rewrite lines_free, nel_free by (apply clean_lf_free, Hc).
      destruct l; [congruence|split; reflexivity].
  - change (join (le_str le) (l :: l' :: r')) with (l ++ le_str le ++ join (le_str le) (l' :: r')).
    rewrite tag_cons.
    assert (ET : forall J T : str,
               (l ++ le_str le ++ J) ++ T = (l ++ cr_of le) ++ LF :: (J ++ T)).
    { intros J T. rewrite le_str_cr. rewrite <- !app_assoc. reflexivity. }
    rewrite ET.
    rewrite lines_app, nel_app by exact Hlf.
    rewrite strip_cr_good, term_entry_good by exact H1.
    destruct (IH ltac:(discriminate) H2) as [E1 E2]. rewrite E1, E2. split; reflexivity.
Qed.

(* the second loop, computed exactly *)
Lemma unfill_join_cons l e r first ii si det :
  unfill_join ((l, e) :: r) first ii si det =
  match bdrop l (blen (if first then ii else si)), unfill_join r false ii si (det_step det e) with
  | Some body, Some (rest, d) => Some ((if first then body else SP :: body) ++ rest, d)
  | _, _ => None
  end.
Proof. reflexivity. Qed.

Lemma join_rest_exact ii si : forall (bes : list (str * option line_ending)) d,
  unfill_join (map (fun e => (si ++ fst e, snd e)) bes) false ii si d =
  Some (concat (map (fun e => SP :: fst e) bes), fold_left det_step (map snd bes) d).
Proof.
  induction bes as [|[b e] r IH]; intros d; [reflexivity|].
  cbn [map fst snd]. rewrite unfill_join_cons, bdrop_app, IH. reflexivity.
Qed.

Lemma join_rest_exact' ii si si' (bes : list (str * option line_ending)) d :
  bes = [] \/ si' = si ->
  unfill_join (map (fun e => (si ++ fst e, snd e)) bes) false ii si' d =
  Some (concat (map (fun e => SP :: fst e) bes), fold_left det_step (map snd bes) d).
Proof. intros [H|H]; subst; [reflexivity|apply join_rest_exact]. Qed.

Lemma det_step_same le : det_step (Some le) (Some le) = Some le.
Proof. destruct le; reflexivity. Qed.

Lemma fold_tag_some le ht Ls :
  fold_left det_step (map snd (tag le ht Ls)) (Some le) = Some le.
Proof.
  induction Ls as [|l r IH]; [reflexivity|]. rewrite tag_cons. cbn [map snd fold_left].
  destruct r as [|l' r'].
  - destruct ht, le; reflexivity.
  - rewrite det_step_same. exact IH.
Qed.

Lemma fold_tag_none le (ht : bool) (Ls : list str) :
  Ls <> [] ->
  fold_left det_step (map snd (tag le ht Ls)) None =
  if ht || match Ls with _ :: _ :: _ => true | _ => false end then Some le else None.
Proof.
  intros Hne. destruct Ls as [|l [|l' r]]; [congruence| |].
  - cbn [tag map snd fold_left]. destruct ht; reflexivity.
  - rewrite tag_cons. cbn [map snd fold_left]. change (det_step None (Some le)) with (Some le).
    rewrite fold_tag_some. rewrite orb_true_r. reflexivity.
Qed.

(* joins *)
Lemma join_cons_concat (sep b0 : str) : forall bs,
  join sep (b0 :: bs) = b0 ++ concat (map (fun b => sep ++ b) bs).
Proof.
  intros bs. revert b0. induction bs as [|b r IH]; intros b0.
  - cbn [join map concat]. now rewrite app_nil_r.
  - change (join sep (b0 :: b :: r)) with (b0 ++ sep ++ join sep (b :: r)).
    rewrite IH. cbn [map concat]. now rewrite <- app_assoc.
Qed.

Lemma join_not_nil (sep : str) (g : list str) :
  g <> [] -> Forall (fun w => w <> []) g -> join sep g <> [].
Proof.
  intros Hne HF. destruct g as [|w r]; [congruence|].
  inversion HF as [|x y H1 H2]; subst. destruct w as [|c w]; [congruence|].
  destruct r; discriminate.
Qed.

Lemma join_app (sep : str) : forall a b : list str,
  a <> [] -> b <> [] -> join sep (a ++ b) = join sep a ++ sep ++ join sep b.
Proof.
  induction a as [|x a IH]; intros b Ha Hb; [congruence|].
  destruct a as [|y a'].
  - cbn [app]. destruct b as [|z b']; [congruence|reflexivity].
  - change ((x :: y :: a') ++ b) with (x :: y :: (a' ++ b)).
    change (join sep (x :: y :: a' ++ b)) with (x ++ sep ++ join sep ((y :: a') ++ b)).
    rewrite IH by (discriminate || exact Hb).
    change (join sep (x :: y :: a')) with (x ++ sep ++ join sep (y :: a')).
    now rewrite <- !app_assoc.
Qed.

Lemma join_concat (sep : str) : forall gs : list (list str),
  Forall (fun g => g <> []) gs -> join sep (map (join sep) gs) = join sep (concat gs).
Proof.
  induction gs as [|g r IH]; intros HF; [reflexivity|].
  inversion HF as [|x y H1 H2]; subst. destruct r as [|g' r'].
  - cbn [map join concat]. now rewrite app_nil_r.
  - change (map (join sep) (g :: g' :: r')) with (join sep g :: map (join sep) (g' :: r')).
    change (join sep (join sep g :: map (join sep) (g' :: r')))
      with (join sep g ++ sep ++ join sep (map (join sep) (g' :: r'))).
    rewrite IH by exact H2.
    change (concat (g :: g' :: r')) with (g ++ concat (g' :: r')).
    rewrite (join_app sep g (concat (g' :: r'))); [reflexivity|exact H1|].
    inversion H2 as [|x y H3 H4]; subst. cbn [concat]. destruct g'; [congruence|discriminate].
Qed.

Lemma join_last_split (sep : str) : forall Ls : list str,
  Ls <> [] -> exists a, join sep Ls = a ++ last Ls [].
Proof.
  induction Ls as [|l r IH]; intros Hne; [congruence|].
  destruct r as [|l' r'].
  - exists []. reflexivity.
  - destruct (IH ltac:(discriminate)) as [a Ha].
    change (join sep (l :: l' :: r')) with (l ++ sep ++ join sep (l' :: r')).
    change (last (l :: l' :: r') []) with (last (l' :: r') []).
    rewrite Ha. exists (l ++ sep ++ a). now rewrite <- !app_assoc.
Qed.

Lemma Forall_last {A} (P : A -> Prop) (d : A) : forall l, l <> [] -> Forall P l -> P (last l d).
Proof.
  induction l as [|x r IH]; intros Hne HF; [congruence|].
  inversion HF; subst. destruct r as [|y r']; [assumption|].
  change (last (x :: y :: r') d) with (last (y :: r') d). apply IH; [discriminate|assumption].
Qed.

(* ends_with *)
Lemma starts_with_app p s : starts_with (p ++ s) p = true.
Proof.
  induction p as [|c p IH]; cbn [app starts_with]; [destruct s; reflexivity|].
  rewrite N.eqb_refl, IH. reflexivity.
Qed.

Lemma ends_with_app a p : ends_with (a ++ p) p = true.
Proof. unfold ends_with. rewrite rev_app_distr. apply starts_with_app. Qed.

Lemma ends_with_lf_false a b p :
  b <> [] -> lf_free b -> ends_with (a ++ b) (p ++ [LF]) = false.
Proof.
  intros Hne Hb. destruct (exists_last Hne) as [b' [c E]]. subst b.
  unfold lf_free in Hb. rewrite Forall_app in Hb. destruct Hb as [_ Hc].
  inversion Hc as [|x y Hc' _]; subst.
  unfold ends_with. rewrite !rev_app_distr. cbn [rev app starts_with].
  destruct (N.eqb_spec c LF) as [E|_]; [contradiction|reflexivity].
Qed.

Lemma zip_mismatch_refl a : zip_mismatch a a = None.
Proof. induction a as [|x a IH]; [reflexivity|]. cbn [zip_mismatch]. rewrite N.eqb_refl, IH. reflexivity. Qed.

(* the first loop, computed exactly *)
Lemma scan_same ii si (bs : list str) :
  (forall b, In b bs -> take_while is_prefix_char (si ++ b) = si) ->
  forall idx w, (2 <= idx)%nat ->
  unfill_scan cw (map (app si) bs) idx w ii si =
  (N.max w (max_width (map (app si) bs)), ii, si).
Proof.
  induction bs as [|b r IH]; intros Hb idx w Hi.
  - cbn [map unfill_scan]. unfold max_width. cbn [map fold_right]. f_equal. f_equal. lia.
  - destruct idx as [|[|k]]; [lia|lia|]. cbn [map unfill_scan].
    rewrite (Hb b (or_introl eq_refl)), zip_mismatch_refl, N.ltb_irrefl.
    rewrite IH; [|intros b' Hb'; apply Hb; right; exact Hb'|lia].
    unfold max_width. cbn [map fold_right]. f_equal. f_equal. lia.
Qed.

Lemma scan_filled ii si b0 (bs : list str) :
  take_while is_prefix_char (ii ++ b0) = ii ->
  (forall b, In b bs -> take_while is_prefix_char (si ++ b) = si) ->
  unfill_scan cw ((ii ++ b0) :: map (app si) bs) 0 0 [] [] =
  (max_width ((ii ++ b0) :: map (app si) bs), ii, match bs with [] => [] | _ => si end).
Proof.
  intros H0 Hb. cbn [unfill_scan]. rewrite H0. destruct bs as [|b1 r].
  - cbn [map unfill_scan]. unfold max_width. cbn [map fold_right]. f_equal. f_equal. lia.
  - cbn [map unfill_scan]. rewrite (Hb b1 (or_introl eq_refl)).
    change (map (app si) r) with (map (app si) r).
    rewrite scan_same; [|intros b' Hb'; apply Hb; right; exact Hb'|lia].
    unfold max_width. cbn [map fold_right]. f_equal. f_equal. lia.
Qed.

Definition many {A} (l : list A) : bool := match l with _ :: _ :: _ => true | _ => false end.

Lemma group_line_good ind g : pchars ind -> group_ok g -> good_line (ind ++ join [SP] g).
Proof.
  intros Hi Hg. destruct (join_sp_head g Hg) as [c [r [E _]]]. destruct Hg as [_ HF]. split.
  - rewrite E. destruct ind; discriminate.
  - unfold clean. apply Forall_app. split; [apply pchars_clean, Hi|apply join_sp_clean, HF].
Qed.

Lemma group_take_while ind g :
  pchars ind -> group_ok g -> take_while is_prefix_char (ind ++ join [SP] g) = ind.
Proof.
  intros Hi Hg. destruct (join_sp_head g Hg) as [c [r [E Hc]]]. rewrite E.
  apply take_while_pchars; assumption.
Qed.

(* Part B: unfill on text of the shape fill produces.  [ht] says whether the text
   carries a trailing line ending (the same [le] as between the lines).  The
   trailing ending is always returned unchanged, including for a single line: the
   model then detects [le] from the trailing ending alone. *)
Theorem unfill_filled ii si le (groups : list (list str)) (ht : bool) :
  pchars ii -> pchars si -> groups <> [] -> Forall group_ok groups ->
  unfill cw (filled ii si le groups ++ (if ht then le_str le else [])) =
  Some (mkUnfilled (join [SP] (concat groups) ++ (if ht then le_str le else []))
                   (max_width (filled_lines ii si groups))
                   ii
                   (if many groups then si else [])
                   (if many groups || ht then le else LE_LF)).
Proof.
  intros Pi Ps Hne HG. destruct groups as [|g0 gs]; [congruence|].
  inversion HG as [|x y G0 GS]; subst.
  set (b0 := join [SP] g0). set (bs := map (join [SP]) gs).
  assert (EL : filled_lines ii si (g0 :: gs) = (ii ++ b0) :: map (app si) bs).
  { rewrite filled_lines_cons. unfold bs. rewrite map_map. reflexivity. }
  assert (GL : Forall good_line ((ii ++ b0) :: map (app si) bs)).
  { rewrite <- EL, filled_lines_cons. constructor; [apply group_line_good; assumption|].
    apply Forall_forall. intros l Hl. apply in_map_iff in Hl. destruct Hl as [g [E Hg]]. subst l.
    rewrite Forall_forall in GS. apply group_line_good; auto. }
  assert (TW0 : take_while is_prefix_char (ii ++ b0) = ii) by (apply group_take_while; assumption).
  assert (TWS : forall b, In b bs -> take_while is_prefix_char (si ++ b) = si).
  { intros b Hb. unfold bs in Hb. apply in_map_iff in Hb. destruct Hb as [g [E Hg]]. subst b.
    rewrite Forall_forall in GS. apply group_take_while; auto. }
  unfold filled. rewrite EL.
  destruct (lines_joined le ht ((ii ++ b0) :: map (app si) bs) ltac:(discriminate) GL) as [E1 E2].
  set (text := join (le_str le) ((ii ++ b0) :: map (app si) bs) ++ (if ht then le_str le else [])) in *.
  (* first loop *)
  assert (HS : unfill_scan cw (lines text) 0 0 [] [] =
               (max_width ((ii ++ b0) :: map (app si) bs), ii, if many (g0 :: gs) then si else [])).
  { rewrite E1, (scan_filled ii si b0 bs TW0 TWS). unfold bs. destruct gs; reflexivity. }
  (* second loop *)
  set (si' := if many (g0 :: gs) then si else []) in *.
  assert (HJ : unfill_join (nel text) true ii si' None =
               Some (join [SP] (concat (g0 :: gs)),
                     if ht || many (g0 :: gs) then Some le else None)).
  { rewrite E2.
    assert (ED : fold_left det_step (map snd (tag le ht ((ii ++ b0) :: map (app si) bs))) None =
                 if ht || many (g0 :: gs) then Some le else None).
    { rewrite fold_tag_none by discriminate. unfold bs, many. destruct gs; reflexivity. }
    rewrite <- ED.
    rewrite tag_cons, tag_map.
    rewrite unfill_join_cons, bdrop_app, join_rest_exact'
      by (unfold si', bs; destruct gs; [left|right]; reflexivity).
    cbn [map snd fold_left]. rewrite map_map. cbn [snd].
    f_equal. f_equal.
    rewrite <- join_concat by (revert HG; apply Forall_impl; intros g [Hg _]; exact Hg).
    change (map (join [SP]) (g0 :: gs)) with (b0 :: bs).
    rewrite join_cons_concat.
    rewrite <- (tag_map_fst le ht bs) at 2. rewrite map_map. reflexivity. }
  rewrite (unfill_unfold text _ _ _ _ _ HS HJ). rewrite <- EL. f_equal.
  destruct ht.
  - cbn [orb]. rewrite orb_true_r. f_equal. unfold text. rewrite ends_with_app. reflexivity.
  - cbn [orb]. rewrite orb_false_r. destruct (many (g0 :: gs)) eqn:EM; [|reflexivity].
    f_equal. f_equal. unfold text. rewrite app_nil_r.
    destruct (join_last_split (le_str le) ((ii ++ b0) :: map (app si) bs) ltac:(discriminate)) as [a Ha].
    rewrite Ha, le_str_cr.
    assert (HL : good_line (last ((ii ++ b0) :: map (app si) bs) [])).
    { apply Forall_last; [discriminate|exact GL]. }
    destruct HL as [HL1 HL2].
    rewrite ends_with_lf_false; [reflexivity|exact HL1|apply clean_lf_free, HL2].
Qed.
End Unfill.

(* ------------------------------------------------------------------ *)
(* Part C : refill = fill with the recovered indents (C16)             *)
(* ------------------------------------------------------------------ *)

Lemma Forall_concat' {A} (P : A -> Prop) (ls : list (list A)) :
  Forall (Forall P) ls -> Forall P (concat ls).
Proof.
  induction 1 as [|l r H _ IH]; cbn [concat]; [constructor|]. apply Forall_app. split; assumption.
Qed.

Lemma paragraph_ok (groups : list (list str)) :
  groups <> [] -> Forall group_ok groups ->
  join [SP] (concat groups) <> [] /\ lf_free (join [SP] (concat groups)).
Proof.
  intros Hne HG.
  assert (HW : Forall word_ok (concat groups)).
  { apply Forall_concat'. revert HG. apply Forall_impl. intros g [_ H]. exact H. }
  assert (HC : group_ok (concat groups)).
  { split; [|exact HW]. destruct groups as [|g gs]; [congruence|].
    inversion HG as [|x y [H1 _] _]; subst. cbn [concat]. destruct g; [congruence|discriminate]. }
  split.
  - destruct (join_sp_head _ HC) as [c [r [E _]]]. rewrite E. discriminate.
  - apply clean_lf_free, join_sp_clean, HW.
Qed.

Lemma strip_suffix_app a p : strip_suffix (a ++ p) p = Some a.
Proof.
  unfold strip_suffix. rewrite ends_with_app. f_equal.
  rewrite app_length. replace (length a + length p - length p)%nat with (length a + 0)%nat by lia.
  rewrite firstn_app_2. cbn [firstn]. apply app_nil_r.
Qed.

Section RefillC.
Variable cw : char -> N.
Variable alnum : char -> bool.
Variable lbc : str -> list N.
Variable custom_sp : str -> list N.
Variable ofit : penalties -> list word -> list N -> option (list (list word)).

(* refill of text of the shape fill produces = fill, with the caller's width, line
   ending and algorithm and the recovered indents, of the paragraph; the trailing
   line ending (if there was one) is re-emitted as the NEW line ending *)
Theorem refill_filled o ii si le (groups : list (list str)) (ht : bool) :
  pchars ii -> pchars si -> groups <> [] -> Forall group_ok groups ->
  refill cw alnum lbc custom_sp ofit o (filled ii si le groups ++ (if ht then le_str le else [])) =
  match fill cw alnum lbc custom_sp ofit
             (mkOptions (o_width o) (o_le o) ii (if many groups then si else [])
                        (o_bw o) (o_alg o) (o_sep o) (o_spl o))
             (join [SP] (concat groups)) with
  | None => None
  | Some r => Some (r ++ (if ht then le_str (o_le o) else []))
  end.
Proof.
  intros Pi Ps Hne HG. unfold refill.
  rewrite (unfill_filled cw ii si le groups ht Pi Ps Hne HG).
  cbn [u_text u_width u_ii u_si u_le].
  destruct (paragraph_ok groups Hne HG) as [PN PL].
  destruct ht.
  - rewrite orb_true_r, strip_suffix_app. reflexivity.
  - rewrite app_nil_r.
    assert (ES : strip_suffix (join [SP] (concat groups))
                   (le_str (if many groups || false then le else LE_LF)) = None).
    { unfold strip_suffix. rewrite le_str_cr.
      rewrite (ends_with_lf_false [] _ _ PN PL). reflexivity. }
    rewrite ES. destruct (fill _ _ _ _ _ _ _) as [r|]; [|reflexivity].
    rewrite app_nil_r. reflexivity.
Qed.
End RefillC.

(* ------------------------------------------------------------------ *)
(* Non-vacuity                                                         *)
(* ------------------------------------------------------------------ *)

Definition ex_cw : char -> N := fun _ => 1.

(* A.2 corner inputs: "\r\r\n", "a\r", "\r", "\r\n\na\r\n\r" *)
Example ex_nel_corners :
  (nel [13;13;10], lines [13;13;10]) = ([([13], Some LE_CRLF)], [[13]]) /\
  (nel [97;13], lines [97;13]) = ([([97;13], None)], [[97;13]]) /\
  (nel [13], lines [13]) = ([([13], None)], [[13]]) /\
  (nel [13;10;10;97;13;10;13], lines [13;10;10;97;13;10;13]) =
    ([([97], Some LE_CRLF); ([13], None)], [[]; []; [97]; [13]]).
Proof. vm_compute. repeat split. Qed.

(* A.5 needs "no empty lines": in "\na\r\n" the first ending is a bare LF, yet the
   skipped empty line does not take part in the detection and CRLF is reported *)
Example ex_le_needs_no_empty_lines :
  option_map u_le (unfill ex_cw [10;97;13;10]) = Some LE_CRLF /\
  removelast (split_lf [10;97;13;10]) = [[]; [97;13]].
Proof. vm_compute. split; reflexivity. Qed.

(* the hypothesis of A.5 is satisfiable, with both outcomes *)
Example ex_le_crlf :
  Forall proper_piece (removelast (split_lf [97;13;10;98;13;10;99])) /\
  option_map u_le (unfill ex_cw [97;13;10;98;13;10;99]) = Some LE_CRLF /\
  Forall proper_piece (removelast (split_lf [97;13;10;98;10;99])) /\
  option_map u_le (unfill ex_cw [97;13;10;98;10;99]) = Some LE_LF.
Proof.
  split; [|split; [|split]]; try (vm_compute; reflexivity);
    cbn; repeat constructor; discriminate.
Qed.

(* Part B: "- ab c\r\n  d\r\n" *)
Definition ex_groups : list (list str) := [[[97;98];[99]];[[100]]].
Definition ex_ii : str := [45;32].
Definition ex_si : str := [32;32].

Lemma ex_hyps : pchars ex_ii /\ pchars ex_si /\ ex_groups <> [] /\ Forall group_ok ex_groups.
Proof.
  split; [repeat constructor|]. split; [repeat constructor|]. split; [discriminate|].
  assert (W : forall c, is_prefix_char c = false -> c <> SP -> c <> CR -> c <> LF -> word_ok [c]).
  { intros c H1 H2 H3 H4. split; [repeat constructor; assumption|]. exists c, []. split; [reflexivity|exact H1]. }
  repeat constructor; try discriminate.
  - exists 97, [98]. split; reflexivity.
  - exists 99, []. split; reflexivity.
  - exists 100, []. split; reflexivity.
Qed.

Example ex_filled_text :
  filled ex_ii ex_si LE_CRLF ex_groups ++ le_str LE_CRLF =
  [45; 32; 97; 98; 32; 99; 13; 10; 32; 32; 100; 13; 10].
Proof. vm_compute. reflexivity. Qed.

Example ex_unfill_filled :
  unfill ex_cw (filled ex_ii ex_si LE_CRLF ex_groups ++ le_str LE_CRLF) =
  Some (mkUnfilled [97; 98; 32; 99; 32; 100; 13; 10] 6 ex_ii ex_si LE_CRLF).
Proof.
  destruct ex_hyps as [H1 [H2 [H3 H4]]].
  rewrite (unfill_filled ex_cw ex_ii ex_si LE_CRLF ex_groups true H1 H2 H3 H4).
  vm_compute. reflexivity.
Qed.

(* single line with a trailing CRLF: CRLF is detected from the trailing ending *)
Example ex_unfill_single_crlf :
  unfill ex_cw (filled ex_ii ex_si LE_CRLF [[[97]]] ++ le_str LE_CRLF) =
  Some (mkUnfilled [97; 13; 10] 3 ex_ii [] LE_CRLF).
Proof. vm_compute. reflexivity. Qed.

(* the first-character condition on words is needed: a word "-x" on an unindented
   line is eaten into the initial indent *)
Example ex_prefix_word_eaten :
  unfill ex_cw (filled [] [] LE_LF [[[45;120]]]) = Some (mkUnfilled [120] 2 [45] [] LE_LF).
Proof. vm_compute. reflexivity. Qed.

(* Part C: refill "- ab c\r\n  d\r\n" at width 5 with LF endings = "- ab\n  c d\n" *)
Definition ex_opts := mkOptions 5 LE_LF [] [] true FirstFit SepAscii SplNone.
Example ex_refill :
  refill ex_cw (fun _ => false) (fun _ => []) (fun _ => []) ofit_dp ex_opts
         (filled ex_ii ex_si LE_CRLF ex_groups ++ le_str LE_CRLF) =
  Some [45; 32; 97; 98; 10; 32; 32; 99; 32; 100; 10].
Proof.
  destruct ex_hyps as [H1 [H2 [H3 H4]]].
  rewrite (refill_filled ex_cw _ _ _ _ ex_opts ex_ii ex_si LE_CRLF ex_groups true H1 H2 H3 H4).
  vm_compute. reflexivity.
Qed.

Print Assumptions non_empty_lines_total.
Print Assumptions nel_lines.
Print Assumptions nel_entries.
Print Assumptions unfill_total.
Print Assumptions unfill_structure.
Print Assumptions unfill_le_crlf_general.
Print Assumptions unfill_le_crlf.
Print Assumptions unfill_filled.
Print Assumptions refill_filled.
Print Assumptions ex_refill.
