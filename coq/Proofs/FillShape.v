(* C15 / C16 bridge: on a paragraph of "ordinary" words separated by single spaces,
   [fill] produces exactly the shape [filled ii si le groups] that [unfill] inverts
   (UnfillFacts.unfill_filled) and that [refill] re-fills (UnfillFacts.refill_filled). *)
From Coq Require Import Lia ZArith.
From TW Require Import Wrap Refill.
From TW Require Import EscFacts Partition Paragraphs Pipeline UnfillFacts.
From TW Require InplaceFacts Lossless.

Arguments N.add : simpl never.
Arguments N.sub : simpl never.
Arguments N.mul : simpl never.
Arguments N.leb : simpl never.
Arguments N.ltb : simpl never.
Arguments N.eqb : simpl never.

(* ================================================================== *)
(* generic facts                                                        *)
(* ================================================================== *)

(* a word of the paragraph as far as the separator is concerned: non-empty, no space *)
Definition plain (w : str) : Prop := w <> [] /\ nosp w.

Lemma word_ok_plain w : word_ok w -> plain w.
Proof.
  intros [H [c [r [E _]]]]. split; [rewrite E; discriminate|].
  revert H. apply Forall_impl. intros a [Ha _]. exact Ha.
Qed.

Lemma words_plain words : Forall word_ok words -> Forall plain words.
Proof. apply Forall_impl. exact word_ok_plain. Qed.

Lemma join_cons2 (sep x y : str) (r : list str) :
  join sep (x :: y :: r) = x ++ sep ++ join sep (y :: r).
Proof. reflexivity. Qed.

Lemma join_cons_char (sep : str) c w (r : list str) :
  join sep ((c :: w) :: r) = c :: join sep (w :: r).
Proof. destruct r; reflexivity. Qed.

(* no trailing space to trim *)
Lemma split_ws_keep x : forall s, s <> [] -> split_ws s = (s, []) -> split_ws (x ++ s) = (x ++ s, []).
Proof.
  induction x as [|c x IH]; intros s Hne Hs; [exact Hs|].
  cbn [app split_ws]. rewrite (IH s Hne Hs).
  destruct (x ++ s) as [|d r] eqn:E; [|reflexivity].
  apply app_eq_nil in E. destruct E as [_ E]. contradiction.
Qed.

Lemma split_ws_plain w : plain w -> split_ws w = (w, []).
Proof.
  intros [_ Hw]. rewrite <- (app_nil_r w) at 1.
  apply InplaceFacts.split_ws_spec; [exact Hw|constructor].
Qed.

Lemma split_ws_join words : words <> [] -> Forall plain words ->
  split_ws (join [SP] words) = (join [SP] words, []).
Proof.
  induction words as [|w r IH]; intros Hne HF; [congruence|].
  inversion HF as [|x y Hw Hr]; subst x y.
  destruct r as [|w' r']; [cbn [join]; apply split_ws_plain; exact Hw|].
  rewrite join_cons2, app_assoc.
  assert (Hne' : w' :: r' <> []) by discriminate.
  apply split_ws_keep; [|exact (IH Hne' Hr)].
  inversion Hr as [|x y [Hw' _] _]; subst x y.
  destruct w' as [|c t]; [congruence|]. rewrite join_cons_char. discriminate.
Qed.

Lemma trim_end_sp_join words : words <> [] -> Forall plain words ->
  trim_end_sp (join [SP] words) = join [SP] words.
Proof. intros Hne HF. unfold trim_end_sp. rewrite split_ws_join by assumption. reflexivity. Qed.

(* ================================================================== *)
(* B1: find_words_ascii on a single-spaced paragraph                    *)
(* ================================================================== *)

Section Shape.
Variable cw : char -> N.
Variable alnum : char -> bool.
Variable lbc : str -> list N.
Variable custom_sp : str -> list N.
Variable ofit : penalties -> list word -> list N -> option (list (list word)).

(* a word followed by one space / by nothing *)
Definition sword (w : str) : word := mkWord w [SP] [] (dw cw w).
Definition lword (w : str) : word := mkWord w [] [] (dw cw w).

Fixpoint spaced (ws : list str) : list word :=
  match ws with
  | [] => []
  | [w] => [lword w]
  | w :: r => sword w :: spaced r
  end.

Lemma spaced_cons2 w w' r : spaced (w :: w' :: r) = sword w :: spaced (w' :: r).
Proof. reflexivity. Qed.

Lemma spaced_explicit words : words <> [] ->
  spaced words = map sword (removelast words) ++ [lword (last words [])].
Proof.
  induction words as [|w r IH]; intros Hne; [congruence|].
  destruct r as [|w' r']; [reflexivity|].
  rewrite spaced_cons2, IH by discriminate.
  change (removelast (w :: w' :: r')) with (w :: removelast (w' :: r')).
  change (last (w :: w' :: r') []) with (last (w' :: r') []).
  reflexivity.
Qed.

(* scanning the characters of a word, not in whitespace *)
Lemma fwa_loop_word w : forall t cur, nosp w ->
  fwa_loop cw (w ++ t) cur false = fwa_loop cw t (rev w ++ cur) false.
Proof.
  induction w as [|c w IH]; intros t cur Hw; [reflexivity|].
  inversion Hw as [|x y Hc Hw']; subst x y.
  cbn [app fwa_loop andb].
  destruct (N.eqb_spec c SP) as [E|_]; [contradiction|].
  rewrite IH by exact Hw'. cbn [rev]. rewrite <- app_assoc. reflexivity.
Qed.

Lemma fwa_loop_join : forall r w cur, nosp (rev cur) -> nosp w -> rev cur ++ w <> [] ->
  Forall plain r ->
  fwa_loop cw (join [SP] (w :: r)) cur false = spaced ((rev cur ++ w) :: r).
Proof.
  induction r as [|w2 r IH]; intros w cur Hu Hw Hne HF.
  - cbn [join]. rewrite <- (app_nil_r w) at 1. rewrite fwa_loop_word by exact Hw.
    cbn [fwa_loop spaced].
    assert (E : rev (rev w ++ cur) = rev cur ++ w).
    { rewrite rev_app_distr, rev_involutive. reflexivity. }
    destruct (rev w ++ cur) as [|c0 cur'] eqn:Ec.
    + cbn [rev] in E. rewrite <- E in Hne. congruence.
    + rewrite E. rewrite <- (app_nil_r (rev cur ++ w)) at 1.
      rewrite InplaceFacts.word_from_spec; [reflexivity| |constructor].
      apply Forall_app. split; assumption.
  - inversion HF as [|x y [Hne2 Hw2] Hr]; subst x y.
    destruct w2 as [|c2 t2]; [congruence|].
    inversion Hw2 as [|x y Hc2 Ht2]; subst x y.
    rewrite join_cons2, fwa_loop_word by exact Hw.
    rewrite join_cons_char. cbn [app fwa_loop andb].
    change (SP =? SP) with true. cbn [negb andb].
    destruct (N.eqb_spec c2 SP) as [E|_]; [contradiction|]. cbn [negb].
    assert (E : rev (SP :: rev w ++ cur) = (rev cur ++ w) ++ [SP]).
    { cbn [rev]. rewrite rev_app_distr, rev_involutive. reflexivity. }
    rewrite E, InplaceFacts.word_from_spec.
    + assert (Hc : nosp (rev [c2])) by (cbn [rev app]; constructor; [exact Hc2|constructor]).
      assert (Hn : rev [c2] ++ t2 <> []) by discriminate.
      pose proof (IH t2 [c2] Hc Ht2 Hn Hr) as IH2. cbn [rev app] in IH2.
      change (spaced ((rev cur ++ w) :: (c2 :: t2) :: r))
        with (sword (rev cur ++ w) :: spaced ((c2 :: t2) :: r)).
      unfold sword. f_equal. exact IH2.
    + apply Forall_app. split; assumption.
    + constructor; [reflexivity|constructor].
Qed.

Lemma find_words_ascii_spaced words : Forall plain words ->
  find_words_ascii cw (join [SP] words) = spaced words.
Proof.
  intros HF. destruct words as [|w r]; [reflexivity|].
  inversion HF as [|x y [Hne Hw] Hr]; subst x y.
  unfold find_words_ascii. rewrite (fwa_loop_join r w []); [reflexivity|constructor|exact Hw| |exact Hr].
  cbn [rev app]. exact Hne.
Qed.

(* B1 *)
Theorem find_words_ascii_join words : words <> [] -> Forall word_ok words ->
  find_words_ascii cw (join [SP] words) =
  map (fun w => mkWord w [SP] [] (dw cw w)) (removelast words) ++
  [mkWord (last words []) [] [] (dw cw (last words []))].
Proof.
  intros Hne HF. rewrite find_words_ascii_spaced by (apply words_plain; exact HF).
  apply spaced_explicit. exact Hne.
Qed.

(* ================================================================== *)
(* B2: the shape of fill                                                *)
(* ================================================================== *)

Lemma spaced_wordlike words : Forall plain words -> Forall (InplaceFacts.wordlike cw) (spaced words).
Proof.
  induction words as [|w r IH]; intros HF; [constructor|].
  inversion HF as [|x y [_ Hw] Hr]; subst x y.
  destruct r as [|w' r'].
  - constructor; [|constructor]. split; [exact Hw|]. split; [constructor|]. split; reflexivity.
  - rewrite spaced_cons2. constructor; [|exact (IH Hr)].
    split; [exact Hw|]. split; [constructor; [reflexivity|constructor]|]. split; reflexivity.
Qed.

Lemma spaced_pen words : Forall (fun x => w_pen x = []) (spaced words).
Proof.
  induction words as [|w r IH]; [constructor|].
  destruct r as [|w' r']; [constructor; [reflexivity|constructor]|].
  rewrite spaced_cons2. constructor; [reflexivity|exact IH].
Qed.

Lemma spaced_nil words : spaced words = [] -> words = [].
Proof. destruct words as [|w [|w' r]]; [reflexivity|discriminate|discriminate]. Qed.

(* a split of the word list with a non-empty right part: the left part consists of
   space-terminated words only *)
Lemma spaced_split : forall a words b, spaced words = a ++ b -> b <> [] ->
  exists w1 w2, words = w1 ++ w2 /\ a = map sword w1 /\ b = spaced w2.
Proof.
  induction a as [|x a IH]; intros words b E Hb.
  - exists [], words. split; [reflexivity|]. split; [reflexivity|]. symmetry. exact E.
  - destruct words as [|w r]; [discriminate|].
    destruct r as [|w' r'].
    + cbn [spaced app] in E. injection E as _ E.
      symmetry in E. apply app_eq_nil in E. destruct E as [_ E]. contradiction.
    + rewrite spaced_cons2 in E. cbn [app] in E. injection E as Ex E.
      destruct (IH (w' :: r') b E Hb) as [w1 [w2 [E1 [E2 E3]]]].
      exists (w :: w1), w2. split; [cbn [app]; rewrite E1; reflexivity|].
      split; [cbn [map]; rewrite Ex, E2; reflexivity|exact E3].
Qed.

(* body / lastw_pen, by recursion from the front *)
Lemma body_single x : body [x] = w_word x.
Proof. reflexivity. Qed.

Lemma body_cons x g : g <> [] -> body (x :: g) = (w_word x ++ w_ws x) ++ body g.
Proof.
  intros Hne. destruct (exists_last Hne) as [init [lw E]]. subst g.
  change (x :: init ++ [lw]) with ((x :: init) ++ [lw]).
  rewrite !body_snoc, gtext_cons, <- !app_assoc. reflexivity.
Qed.

Lemma lastw_pen_nil g : Forall (fun x => w_pen x = []) g -> lastw_pen g = [].
Proof.
  intros HF. unfold lastw_pen. destruct (rev g) as [|lw r] eqn:E; [reflexivity|].
  rewrite Forall_forall in HF. apply HF. apply in_rev. rewrite E. left. reflexivity.
Qed.

Lemma body_swords w1 : w1 <> [] -> body (map sword w1) = join [SP] w1.
Proof.
  induction w1 as [|w r IH]; intros Hne; [congruence|].
  destruct r as [|w' r']; [reflexivity|].
  change (map sword (w :: w' :: r')) with (sword w :: map sword (w' :: r')).
  rewrite body_cons by discriminate. rewrite IH by discriminate.
  rewrite join_cons2. cbn [sword w_word w_ws]. rewrite <- app_assoc. reflexivity.
Qed.

Lemma body_spaced words : words <> [] -> body (spaced words) = join [SP] words.
Proof.
  induction words as [|w r IH]; intros Hne; [congruence|].
  destruct r as [|w' r']; [reflexivity|].
  rewrite spaced_cons2, body_cons.
  - rewrite IH by discriminate. rewrite join_cons2. cbn [sword w_word w_ws].
    rewrite <- app_assoc. reflexivity.
  - intros E. apply spaced_nil in E. discriminate.
Qed.

(* the texts of the lines of [filled], by recursion *)
Fixpoint ltexts (ii si : str) (first : bool) (sg : list (list str)) : list str :=
  match sg with
  | [] => []
  | g :: r => ((if first then ii else si) ++ join [SP] g) :: ltexts ii si false r
  end.

Lemma ltexts_false ii si sg : ltexts ii si false sg = map (fun g => si ++ join [SP] g) sg.
Proof. induction sg as [|g r IH]; [reflexivity|]. cbn [ltexts map]. rewrite IH. reflexivity. Qed.

Lemma ltexts_filled ii si sg : ltexts ii si true sg = filled_lines ii si sg.
Proof.
  destruct sg as [|g r]; [reflexivity|].
  rewrite filled_lines_cons. cbn [ltexts]. rewrite ltexts_false. reflexivity.
Qed.

(* any partition of [spaced words] into non-empty consecutive groups yields lines
   "indent ++ the group's words joined by single spaces" *)
Lemma lines_of_spaced o : forall groups words first off,
  Forall (fun g => g <> []) groups -> groups <> [] -> concat groups = spaced words ->
  exists sg, concat sg = words /\ sg <> [] /\ Forall (fun g => g <> []) sg /\
    map l_text (lines_of o first groups off) = ltexts (o_ii o) (o_si o) first sg.
Proof.
  induction groups as [|g rest IH]; intros words first off HF Hne Hc; [congruence|].
  inversion HF as [|x y Hg Hrest]; subst x y.
  cbn [concat] in Hc.
  assert (Hpen : Forall (fun x => w_pen x = []) g).
  { pose proof (spaced_pen words) as Hp. rewrite <- Hc in Hp.
    apply Forall_app in Hp. exact (proj1 Hp). }
  destruct rest as [|g2 rest'].
  - cbn [concat] in Hc. rewrite app_nil_r in Hc. subst g.
    assert (Hw : words <> []) by (intros ->; apply Hg; reflexivity).
    exists [words]. split; [cbn [concat]; apply app_nil_r|].
    split; [discriminate|]. split; [constructor; [exact Hw|constructor]|].
    cbn [lines_of map l_text ltexts].
    rewrite body_spaced by exact Hw. rewrite lastw_pen_nil by exact Hpen.
    rewrite app_nil_r. reflexivity.
  - assert (Hb : concat (g2 :: rest') <> []).
    { inversion Hrest as [|x y Hg2 _]; subst x y. cbn [concat].
      destruct g2; [congruence|discriminate]. }
    assert (Hne2 : g2 :: rest' <> []) by discriminate.
    remember (g2 :: rest') as rest eqn:Er. clear Er.
    destruct (spaced_split g words (concat rest) (eq_sym Hc) Hb) as [w1 [w2 [E1 [E2 E3]]]].
    assert (Hw1 : w1 <> []) by (intros ->; apply Hg; exact E2).
    destruct (IH w2 false (off + blen (gtext g)) Hrest Hne2 E3) as [sg [S1 [S2 [S3 S4]]]].
    exists (w1 :: sg). split; [cbn [concat]; rewrite S1; symmetry; exact E1|].
    split; [discriminate|]. split; [constructor; [exact Hw1|exact S3]|].
    cbn [lines_of map l_text ltexts]. rewrite S4.
    rewrite lastw_pen_nil by exact Hpen. rewrite E2, body_swords by exact Hw1.
    rewrite app_nil_r. reflexivity.
Qed.

Lemma para_lf_free words : Forall word_ok words -> Paragraphs.lf_free (join [SP] words).
Proof.
  intros HF Hin. pose proof (join_sp_clean words HF) as Hc.
  unfold clean in Hc. rewrite Forall_forall in Hc. destruct (Hc LF Hin) as [_ H]. congruence.
Qed.

Lemma gtext_spaced words : Forall plain words -> gtext (spaced words) = join [SP] words.
Proof.
  intros HF. rewrite <- find_words_ascii_spaced by exact HF.
  destruct (Lossless.ascii_lossless cw (join [SP] words)) as [H _]. exact H.
Qed.

Section Fill.
Variable o : options.
Variable words : list str.
Hypothesis Hbw : o_bw o = false.
Hypothesis Hspl : o_spl o = SplNone.
Hypothesis Hsep : o_sep o = SepAscii.
Hypothesis Hofit : OfitOK ofit.
Hypothesis Hwords : Forall word_ok words.
Hypothesis Hne : words <> [].

Lemma pipeline_words_spaced first :
  pipeline_words cw alnum lbc custom_sp o first (join [SP] words) = Some (spaced words).
Proof.
  unfold pipeline_words. rewrite Hbw, Hspl, Hsep. cbn [find_words].
  rewrite find_words_ascii_spaced by (apply words_plain; exact Hwords).
  rewrite InplaceFacts.split_words_none; [reflexivity|].
  apply spaced_wordlike, words_plain, Hwords.
Qed.

Lemma slow_path_shape first :
  exists groups, concat groups = words /\ groups <> [] /\ Forall (fun g => g <> []) groups /\
  exists ls, slow_path cw alnum lbc custom_sp ofit o first (join [SP] words) = Some ls /\
    map l_text ls = ltexts (o_ii o) (o_si o) first groups.
Proof.
  rewrite slow_path_unfold, pipeline_words_spaced.
  destruct (run_alg_spec ofit (o_alg o) (spaced words) (line_widths cw o first) Hofit)
    as [groups [G1 [G2 [G3 _]]]].
  rewrite G1.
  assert (Hs : spaced words <> []) by (intros E; apply spaced_nil in E; contradiction).
  specialize (G3 Hs).
  assert (Hg : groups <> []) by (intros ->; cbn [concat] in G2; congruence).
  destruct (lines_of_spaced o groups words first 0 G3 Hg G2) as [sg [S1 [S2 [S3 S4]]]].
  exists sg. split; [exact S1|]. split; [exact S2|]. split; [exact S3|].
  exists (lines_of o first groups 0). split; [|exact S4].
  change 0 with (blen []).
  apply (reassemble_spec o (join [SP] words) groups [] [] first G3).
  rewrite G2, app_nil_r. cbn [app]. symmetry. apply gtext_spaced, words_plain, Hwords.
Qed.

(* B2 *)
Theorem fill_shape :
  exists groups, concat groups = words /\ groups <> [] /\ Forall (fun g => g <> []) groups /\
    fill cw alnum lbc custom_sp ofit o (join [SP] words) =
    Some (filled (o_ii o) (o_si o) (o_le o) groups).
Proof.
  rewrite fill_is_join. unfold wrap.
  rewrite split_le_lf_free by (apply para_lf_free; exact Hwords).
  cbn [wrap_loop app]. unfold wrap_single_line.
  destruct ((blen (join [SP] words) <? o_width o) && negb (nonempty (o_ii o))) eqn:Ef.
  - (* the fast path: one line, no indent *)
    apply andb_true_iff in Ef. destruct Ef as [_ Ef].
    assert (Eii : o_ii o = []) by (destruct (o_ii o); [reflexivity|discriminate]).
    exists [words]. split; [cbn [concat]; apply app_nil_r|]. split; [discriminate|].
    split; [constructor; [exact Hne|constructor]|].
    cbn [map]. rewrite shift_cow_text. cbn [l_text join].
    rewrite trim_end_sp_join by (exact Hne || (apply words_plain; exact Hwords)).
    unfold filled. rewrite filled_lines_cons, Eii. reflexivity.
  - destruct (slow_path_shape true) as [groups [G1 [G2 [G3 [ls [E1 E2]]]]]].
    exists groups. split; [exact G1|]. split; [exact G2|]. split; [exact G3|].
    rewrite E1, map_shift_cow_text, E2, ltexts_filled. reflexivity.
Qed.

End Fill.

(* ================================================================== *)
(* B3 (C15) and B4 (C16): unfill and refill after fill                  *)
(* ================================================================== *)

Section Round.
Variable o : options.
Variable words : list str.
Hypothesis Hbw : o_bw o = false.
Hypothesis Hspl : o_spl o = SplNone.
Hypothesis Hsep : o_sep o = SepAscii.
Hypothesis Hofit : OfitOK ofit.
Hypothesis Hwords : Forall word_ok words.
Hypothesis Hne : words <> [].
Hypothesis Hii : pchars (o_ii o).
Hypothesis Hsi : pchars (o_si o).

Lemma groups_ok (groups : list (list str)) :
  concat groups = words -> Forall (fun g => g <> []) groups -> Forall group_ok groups.
Proof.
  intros Hc HF.
  assert (HW : Forall (Forall word_ok) groups) by (apply Forall_concat; rewrite Hc; exact Hwords).
  rewrite Forall_forall in HF, HW |- *. intros g Hg. split; [exact (HF g Hg)|exact (HW g Hg)].
Qed.

(* B3, with one partition for both values of [ht] *)
Theorem unfill_fill_uniform :
  exists groups, concat groups = words /\
    fill cw alnum lbc custom_sp ofit o (join [SP] words) =
      Some (filled (o_ii o) (o_si o) (o_le o) groups) /\
    forall ht : bool,
    unfill cw (filled (o_ii o) (o_si o) (o_le o) groups ++ (if ht then le_str (o_le o) else [])) =
    Some (mkUnfilled (join [SP] words ++ (if ht then le_str (o_le o) else []))
                     (max_width cw (filled_lines (o_ii o) (o_si o) groups))
                     (o_ii o) (if many groups then o_si o else [])
                     (if many groups || ht then o_le o else LE_LF)).
Proof.
  destruct (fill_shape o words Hbw Hspl Hsep Hofit Hwords Hne) as [groups [G1 [G2 [G3 G4]]]].
  exists groups. split; [exact G1|]. split; [exact G4|]. intros ht.
  rewrite (unfill_filled cw (o_ii o) (o_si o) (o_le o) groups ht Hii Hsi G2 (groups_ok groups G1 G3)).
  rewrite G1. reflexivity.
Qed.

(* B3 (C15), as stated in the task *)
Theorem unfill_fill : forall ht : bool,
  exists groups, concat groups = words /\
    fill cw alnum lbc custom_sp ofit o (join [SP] words) =
      Some (filled (o_ii o) (o_si o) (o_le o) groups) /\
    unfill cw (filled (o_ii o) (o_si o) (o_le o) groups ++ (if ht then le_str (o_le o) else [])) =
    Some (mkUnfilled (join [SP] words ++ (if ht then le_str (o_le o) else []))
                     (max_width cw (filled_lines (o_ii o) (o_si o) groups))
                     (o_ii o) (if many groups then o_si o else [])
                     (if many groups || ht then o_le o else LE_LF)).
Proof.
  intros ht. destruct unfill_fill_uniform as [groups [G1 [G2 G3]]].
  exists groups. split; [exact G1|]. split; [exact G2|exact (G3 ht)].
Qed.

(* B4 (C16), general form: refilling the output of [fill o] with ANY options [o2] is
   filling the original paragraph with [o2], the initial indent of [o] and the
   subsequent indent of [o] -- the latter only when the first filling has at least two
   lines (a single line does not show its subsequent indent: [unfill] then recovers
   the empty one, see [ex_single_line_loses_si] below); a trailing line ending is
   re-emitted as [o2]'s.  [None] is propagated exactly as the model does. *)
Theorem refill_fill :
  exists groups, concat groups = words /\
    fill cw alnum lbc custom_sp ofit o (join [SP] words) =
      Some (filled (o_ii o) (o_si o) (o_le o) groups) /\
    forall (o2 : options) (ht : bool),
    refill cw alnum lbc custom_sp ofit o2
      (filled (o_ii o) (o_si o) (o_le o) groups ++ (if ht then le_str (o_le o) else [])) =
    match fill cw alnum lbc custom_sp ofit
            (mkOptions (o_width o2) (o_le o2) (o_ii o) (if many groups then o_si o else [])
                       (o_bw o2) (o_alg o2) (o_sep o2) (o_spl o2))
            (join [SP] words) with
    | None => None
    | Some r => Some (r ++ (if ht then le_str (o_le o2) else []))
    end.
Proof.
  destruct (fill_shape o words Hbw Hspl Hsep Hofit Hwords Hne) as [groups [G1 [G2 [G3 G4]]]].
  exists groups. split; [exact G1|]. split; [exact G4|]. intros o2 ht.
  rewrite (refill_filled cw alnum lbc custom_sp ofit o2 (o_ii o) (o_si o) (o_le o) groups ht
             Hii Hsi G2 (groups_ok groups G1 G3)).
  rewrite G1. reflexivity.
Qed.

(* B4 (C16), as stated in the task: the first filling has at least two lines *)
Theorem refill_fill_many :
  exists groups, concat groups = words /\
    fill cw alnum lbc custom_sp ofit o (join [SP] words) =
      Some (filled (o_ii o) (o_si o) (o_le o) groups) /\
    (many groups = true ->
     forall (o2 : options) (ht : bool),
     refill cw alnum lbc custom_sp ofit o2
       (filled (o_ii o) (o_si o) (o_le o) groups ++ (if ht then le_str (o_le o) else [])) =
     match fill cw alnum lbc custom_sp ofit
             (mkOptions (o_width o2) (o_le o2) (o_ii o) (o_si o)
                        (o_bw o2) (o_alg o2) (o_sep o2) (o_spl o2))
             (join [SP] words) with
     | None => None
     | Some r => Some (r ++ (if ht then le_str (o_le o2) else []))
     end).
Proof.
  destruct refill_fill as [groups [G1 [G2 G3]]].
  exists groups. split; [exact G1|]. split; [exact G2|].
  intros Hm o2 ht. rewrite (G3 o2 ht), Hm. reflexivity.
Qed.

(* B4 continued: when [o2] is in the same class of options, the result is again of
   the shape [filled], for a second partition of the same words *)
Theorem refill_fill_shape (o2 : options) :
  o_bw o2 = false -> o_spl o2 = SplNone -> o_sep o2 = SepAscii ->
  exists groups, concat groups = words /\
    fill cw alnum lbc custom_sp ofit o (join [SP] words) =
      Some (filled (o_ii o) (o_si o) (o_le o) groups) /\
    exists groups2, concat groups2 = words /\ groups2 <> [] /\
      Forall (fun g => g <> []) groups2 /\
      forall ht : bool,
      refill cw alnum lbc custom_sp ofit o2
        (filled (o_ii o) (o_si o) (o_le o) groups ++ (if ht then le_str (o_le o) else [])) =
      Some (filled (o_ii o) (if many groups then o_si o else []) (o_le o2) groups2 ++
            (if ht then le_str (o_le o2) else [])).
Proof.
  intros Hbw2 Hspl2 Hsep2.
  destruct refill_fill as [groups [G1 [G2 G3]]].
  exists groups. split; [exact G1|]. split; [exact G2|].
  destruct (fill_shape
              (mkOptions (o_width o2) (o_le o2) (o_ii o) (if many groups then o_si o else [])
                         (o_bw o2) (o_alg o2) (o_sep o2) (o_spl o2))
              words Hbw2 Hspl2 Hsep2 Hofit Hwords Hne) as [groups2 [F1 [F2 [F3 F4]]]].
  cbn [o_ii o_si o_le] in F4.
  exists groups2. split; [exact F1|]. split; [exact F2|]. split; [exact F3|].
  intros ht. rewrite (G3 o2 ht), F4. reflexivity.
Qed.

End Round.

End Shape.

(* ================================================================== *)
(* Non-vacuity                                                          *)
(* ================================================================== *)

Module FillShapeExamples.

Definition xcw : char -> N := fun _ => 1.
Definition xalnum : char -> bool := fun _ => false.
Definition xlbc : str -> list N := fun _ => [].
Definition xsp : str -> list N := fun _ => [].

(* "ab", "cd", "ef", "g" *)
Definition xwords : list str := [[97;98];[99;100];[101;102];[103]].
Definition xpara : str := [97;98;32;99;100;32;101;102;32;103].
Definition xii : str := [45;32].   (* "- " *)
Definition xsi : str := [32;32].   (* "  " *)
Definition xo := mkOptions 7 LE_CRLF xii xsi false FirstFit SepAscii SplNone.
Definition xo_opt := mkOptions 7 LE_CRLF xii xsi false (OptimalFit default_penalties) SepAscii SplNone.
(* the second options record is arbitrary: breaks words, hyphen splitter *)
Definition xo2 := mkOptions 5 LE_LF [] [] true FirstFit SepAscii SplHyphen.

Lemma xwords_ok : Forall word_ok xwords /\ xwords <> [] /\ pchars xii /\ pchars xsi.
Proof.
  split; [|split; [discriminate|split]].
  - repeat constructor; try discriminate;
      (eexists; eexists; split; [reflexivity|vm_compute; reflexivity]).
  - repeat constructor.
  - repeat constructor.
Qed.

Example ex_para : join [SP] xwords = xpara.
Proof. reflexivity. Qed.

(* B1 *)
Example ex_find_words :
  find_words_ascii xcw xpara =
  [mkWord [97;98] [SP] [] 2; mkWord [99;100] [SP] [] 2; mkWord [101;102] [SP] [] 2;
   mkWord [103] [] [] 1].
Proof. vm_compute. reflexivity. Qed.

(* B2: "- ab cd" / "  ef g" *)
Example ex_fill :
  fill xcw xalnum xlbc xsp ofit_dp xo xpara =
  Some (filled xii xsi LE_CRLF [[[97;98];[99;100]];[[101;102];[103]]]).
Proof. vm_compute. reflexivity. Qed.

Example ex_fill_optimal :
  exists groups, concat groups = xwords /\ many groups = true /\
  fill xcw xalnum xlbc xsp ofit_dp xo_opt xpara = Some (filled xii xsi LE_CRLF groups).
Proof.
  exists [[[97;98];[99;100]];[[101;102];[103]]].
  split; [reflexivity|]. split; [reflexivity|]. vm_compute. reflexivity.
Qed.

(* B2, fast path: no initial indent and the paragraph is shorter than the width *)
Example ex_fill_fast :
  fill xcw xalnum xlbc xsp ofit_dp (mkOptions 20 LE_LF [] xsi false FirstFit SepAscii SplNone) xpara =
  Some (filled [] xsi LE_LF [xwords]).
Proof. vm_compute. reflexivity. Qed.

(* the hypotheses of the theorems are satisfiable *)
Example ex_unfill_fill_instance := 
  unfill_fill xcw xalnum xlbc xsp ofit_dp xo xwords eq_refl eq_refl eq_refl ofit_dp_ok
    (proj1 xwords_ok) (proj1 (proj2 xwords_ok))
    (proj1 (proj2 (proj2 xwords_ok))) (proj2 (proj2 (proj2 xwords_ok))).

Example ex_refill_fill_instance :=
  refill_fill_many xcw xalnum xlbc xsp ofit_dp xo xwords eq_refl eq_refl eq_refl ofit_dp_ok
    (proj1 xwords_ok) (proj1 (proj2 xwords_ok))
    (proj1 (proj2 (proj2 xwords_ok))) (proj2 (proj2 (proj2 xwords_ok))).

(* B3 computed: unfill (fill para ++ CRLF) *)
Example ex_unfill_fill :
  match fill xcw xalnum xlbc xsp ofit_dp xo xpara with
  | Some t => unfill xcw (t ++ [CR; LF])
  | None => None
  end = Some (mkUnfilled (xpara ++ [CR; LF]) 7 xii xsi LE_CRLF).
Proof. vm_compute. reflexivity. Qed.

(* B4 computed: refill with other options = fill of the paragraph with the old indents *)
Example ex_refill_fill :
  match fill xcw xalnum xlbc xsp ofit_dp xo xpara with
  | Some t => refill xcw xalnum xlbc xsp ofit_dp xo2 (t ++ [CR; LF])
  | None => None
  end =
  match fill xcw xalnum xlbc xsp ofit_dp
          (mkOptions 5 LE_LF xii xsi true FirstFit SepAscii SplHyphen) xpara with
  | Some r => Some (r ++ [LF])
  | None => None
  end
  /\ fill xcw xalnum xlbc xsp ofit_dp
       (mkOptions 5 LE_LF xii xsi true FirstFit SepAscii SplHyphen) xpara =
     Some (filled xii xsi LE_LF [[[97;98]];[[99;100]];[[101;102]];[[103]]]).
Proof. split; vm_compute; reflexivity. Qed.

(* why B4 needs [many groups = true]: a filling that fits on one line does not show its
   subsequent indent, so refilling at a smaller width uses the empty one, whereas
   filling the paragraph with the original subsequent indent does not *)
Definition xo_wide := mkOptions 40 LE_LF xii xsi false FirstFit SepAscii SplNone.
Definition xo_narrow := mkOptions 7 LE_LF [] [] false FirstFit SepAscii SplNone.
Example ex_single_line_loses_si :
  fill xcw xalnum xlbc xsp ofit_dp xo_wide xpara = Some (filled xii xsi LE_LF [xwords]) /\
  refill xcw xalnum xlbc xsp ofit_dp xo_narrow (filled xii xsi LE_LF [xwords]) =
    Some (filled xii [] LE_LF [[[97;98];[99;100]];[[101;102];[103]]]) /\
  fill xcw xalnum xlbc xsp ofit_dp
    (mkOptions 7 LE_LF xii xsi false FirstFit SepAscii SplNone) xpara =
    Some (filled xii xsi LE_LF [[[97;98];[99;100]];[[101;102];[103]]]).
Proof. split; [|split]; vm_compute; reflexivity. Qed.

End FillShapeExamples.

Print Assumptions find_words_ascii_join.
Print Assumptions fill_shape.
Print Assumptions unfill_fill_uniform.
Print Assumptions unfill_fill.
Print Assumptions refill_fill.
Print Assumptions refill_fill_many.
Print Assumptions refill_fill_shape.
