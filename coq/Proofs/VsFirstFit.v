(* C03 corollary: the optimal-fit value never exceeds the cost of the first-fit arrangement. *)
From Coq Require Import ZArith Lia.
From TW Require Import FirstFit OptFit.
From TW Require Import Partition Bellman.

(* the ranges of an ordered partition into non-empty groups form a chain *)
Fixpoint ranges_of {A} (off : nat) (groups : list (list A)) : list (nat * nat) :=
  match groups with
  | [] => []
  | g :: r => (off, off + length g)%nat :: ranges_of (off + length g) r
  end.

Lemma ranges_of_chain {A} (groups : list (list A)) : forall off,
  Forall (fun g => g <> []) groups ->
  chain (off + length (concat groups)) off (ranges_of off groups).
Proof.
  induction groups as [|g r IH]; intros off H; cbn [ranges_of concat chain].
  - cbn [length]. lia.
  - inversion H as [|g0 r0 Hg Hr]; subst. rewrite app_length.
    split; [reflexivity|]. split.
    + destruct g; [congruence|cbn [length]; lia].
    + replace (off + (length g + length (concat r)))%nat with ((off + length g) + length (concat r))%nat by lia.
      apply IH. exact Hr.
Qed.

Theorem opt_le_first_fit : forall P (fs : list (frag NumZ)) (lws : list Z),
  (length lws <= 2)%nat -> fs <> [] ->
  (opt_cost NumZ P fs lws <=
   arrangement_cost NumZ P fs lws (ranges_of 0 (first_fit (fun f => f) fs lws)))%Z.
Proof.
  intros P fs lws Hl Hne. apply bellman_lower; [exact Hl|].
  pose proof (ranges_of_chain (first_fit (fun f => f) fs lws) 0
                (first_fit_nonempty NumZ (frag NumZ) (fun f => f) fs lws Hne)) as H.
  rewrite (first_fit_concat NumZ (frag NumZ) (fun f => f) fs lws) in H. cbn [Nat.add] in H. exact H.
Qed.
Print Assumptions opt_le_first_fit.
