(* C13 for the implementation's own optimal-fit oracle: the executable model of the smawk
   crate looks at the fragments only (widths, whitespace widths, penalty widths), so it is
   "blind" to escape sequences in the sense C13_wrap needs, exactly like the reference
   search. *)
From Coq Require Import ZArith List.
From TW Require Import Wrap Smawk WrapSmawk.
From TW Require Import Colour.
Import ListNotations.

Theorem ofit_smawk_blind : OfitBlind ofit_smawk.
Proof.
  intros p ws lws. unfold ofit_smawk, optimal_fit_smawk.
  rewrite map_map. rewrite (map_ext (fun x => word_frag (strip_word x)) word_frag word_frag_strip).
  destruct (smawk_minima NumZ Z.eqb p (map word_frag ws) (map Z.of_N lws)) as [minima|]; [|reflexivity].
  apply optimal_fit_with_map.
Qed.

Print Assumptions ofit_smawk_blind.
