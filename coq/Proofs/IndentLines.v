(* C08 (first half): every line produced by wrap starts with the applicable indent. *)
From Coq Require Import Lia.
From TW Require Import Wrap.

Section S.
Variable cw : char -> N.
Variable alnum : char -> bool.
Variable lbc : str -> list N.
Variable custom_sp : str -> list N.
Variable ofit : penalties -> list word -> list N -> option (list (list word)).

Definition has_prefix (p s : str) : Prop := exists r, s = p ++ r.

(* first line carries [if first then ii else si], all later ones si *)
Definition indented (o : options) (first : bool) (ls : list oline) : Prop :=
  match ls with
  | [] => True
  | l :: r => has_prefix (if first then o_ii o else o_si o) (l_text l) /\
              Forall (fun x => has_prefix (o_si o) (l_text x)) r
  end.

Lemma indented_false_all o ls : indented o false ls -> Forall (fun x => has_prefix (o_si o) (l_text x)) ls.
Proof. destruct ls as [|l r]; cbn; [constructor|]. intros [H1 H2]. constructor; assumption. Qed.

Lemma reassemble_indented o line : forall groups first idx ls,
  reassemble o line first groups idx = Some ls -> indented o first ls.
Proof.
  induction groups as [|g rest IH]; intros first idx ls H; cbn [reassemble] in H.
  - injection H as <-. exact I.
  - destruct (last (map Some g) None) as [lw|].
    + destruct (_ <? _); [discriminate|].
      destruct (bslice _ _ _) as [sl|]; [|discriminate].
      destruct (reassemble o line false rest _) as [r|] eqn:Er; [|discriminate].
      injection H as <-. cbn [indented l_text]. split.
      * eexists. reflexivity.
      * apply indented_false_all. eapply IH. exact Er.
    + destruct (reassemble o line false rest idx) as [r|] eqn:Er; [|discriminate].
      injection H as <-. cbn [indented l_text]. split.
      * exists []. rewrite app_nil_r. reflexivity.
      * apply indented_false_all. eapply IH. exact Er.
Qed.

Lemma slow_path_indented o first line ls :
  slow_path cw alnum lbc custom_sp ofit o first line = Some ls -> indented o first ls.
Proof.
  unfold slow_path. destruct (split_words _ _ _); [|discriminate].
  destruct (run_alg _ _ _ _); [|discriminate]. apply reassemble_indented.
Qed.

Lemma wrap_single_line_indented o first line ls :
  wrap_single_line cw alnum lbc custom_sp ofit o first line = Some ls -> indented o first ls.
Proof.
  unfold wrap_single_line. destruct (_ && _) eqn:E.
  - intros H. injection H as <-. cbn [indented l_text]. split; [|constructor].
    apply andb_true_iff in E. destruct E as [_ E].
    destruct (if first then o_ii o else o_si o); [|discriminate]. eexists. reflexivity.
  - apply slow_path_indented.
Qed.

Lemma has_prefix_shift base p l : has_prefix p (l_text l) -> has_prefix p (l_text (shift_cow base l)).
Proof. unfold shift_cow. destruct (l_cow l); auto. Qed.

(* the accumulator invariant of the paragraph loop *)
Definition acc_ok (o : options) (acc : list oline) : Prop := indented o true acc.

Lemma indented_app o a b : a <> [] -> indented o true a -> indented o false b -> indented o true (a ++ b).
Proof.
  destruct a as [|x a']; [congruence|]. intros _ [H1 H2] Hb. cbn [app indented]. split; [exact H1|].
  apply Forall_app. split; [exact H2|apply indented_false_all; exact Hb].
Qed.

Lemma indented_map_shift o first base ls : indented o first ls -> indented o first (map (shift_cow base) ls).
Proof.
  destruct ls as [|l r]; cbn [map indented]; [auto|]. intros [H1 H2]. split; [apply has_prefix_shift; exact H1|].
  rewrite Forall_map. eapply Forall_impl; [|exact H2]. intros a Ha. apply has_prefix_shift. exact Ha.
Qed.

Lemma wrap_loop_indented o : forall paras acc base ls,
  indented o true acc ->
  wrap_loop cw alnum lbc custom_sp ofit o paras acc base = Some ls -> indented o true ls.
Proof.
  induction paras as [|p r IH]; intros acc base ls Hacc H; cbn [wrap_loop] in H.
  - injection H as <-. exact Hacc.
  - destruct (wrap_single_line _ _ _ _ _ o _ p) as [l1|] eqn:E; [|discriminate].
    refine (IH _ _ _ _ H).
    apply wrap_single_line_indented in E. apply (indented_map_shift o _ base) in E.
    destruct acc as [|a acc'].
    + cbn [app]. exact E.
    + apply indented_app; [discriminate|exact Hacc|exact E].
Qed.

(* the first line returned by wrap starts with initial_indent, every later line with
   subsequent_indent — for every text, empty and whitespace-only paragraphs included *)
Theorem wrap_indented o text ls :
  wrap cw alnum lbc custom_sp ofit o text = Some ls -> indented o true ls.
Proof. unfold wrap. apply wrap_loop_indented. exact I. Qed.
End S.
