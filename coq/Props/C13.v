(* C13 — ANSI colour codes do not change where lines break.
   A paragraph is an interleaving of visible characters and runs of well-formed
   sequences: items = list (Ch c | Seq q), WF: every Ch is not ESC, every Seq is a
   concatenation of well-formed CSI/OSC sequences without a space in it; render items is
   the coloured text, plain items the text with the sequences removed.
   ParaOK o items :=  WF /\ Attached (no run of sequences sits between two spaces or at a
   paragraph edge next to a space — implied by the property's "touches a non-space
   character", Touching_Attached) /\ the linebreak oracle is OracleOK on the plain text
   (Unicode separator) /\ HyOK (hyphen splitter: every '-' and its two neighbours are
   visible, i.e. no sequence touches a hyphen and none contains one — the negation is the
   listed known finding CutInsideEscape) /\ the byte-length shortcut is unobservable on the
   plain paragraph (ShortcutOK: C05, needed only when the coloured paragraph is at least
   [width] bytes long and the plain one is not).
   Conclusion: removing the sequences from every line of wrap(coloured) gives the lines of
   wrap(plain) (after removing those of the indents), and every coloured line ends at top
   level: no sequence is cut in two. *)
From TW Require Import Wrap Custom.
From TW Require Import Pipeline Fits Colour.

Theorem C13_wrap : forall cw alnum lbc custom_sp ofit,
  OfitOK ofit -> OfitBlind ofit -> SplitterOK custom_sp ->
  forall o (paras : list (list item)),
  final_state Normal (o_ii o) = Normal -> final_state Normal (o_si o) = Normal ->
  paras <> [] ->
  Forall (ParaOK cw alnum lbc custom_sp ofit o) paras ->
  Forall (fun p => ~ In LF (render p)) paras ->
  exists ls_r ls_p,
    wrap cw alnum lbc custom_sp ofit o (join (le_str (o_le o)) (map render paras)) = Some ls_r /\
    wrap cw alnum lbc custom_sp ofit o (join (le_str (o_le o)) (map plain paras)) = Some ls_p /\
    map (fun l => strip (l_text l)) ls_r = map (fun l => strip (l_text l)) ls_p /\
    Forall (fun l => final_state Normal (l_text l) = Normal) ls_r /\
    (Forall (fun c => c <> ESC) (o_ii o) -> Forall (fun c => c <> ESC) (o_si o) ->
     map (fun l => strip (l_text l)) ls_r = map l_text ls_p).
Proof. exact K6_wrap. Qed.

(* the oracle hypotheses hold for the reference optimal-fit; first-fit uses no oracle *)
Theorem C13_reference_oracle : OfitOK ofit_dp /\ OfitBlind ofit_dp.
Proof. split; [exact ofit_dp_ok|exact ofit_dp_blind]. Qed.

(* ... and for the executable model of the smawk crate, the implementation's own oracle *)
From TW Require Import WrapSmawk SmawkShape SmawkBlind.
Theorem C13_smawk_oracle : OfitOK ofit_smawk /\ OfitBlind ofit_smawk.
Proof. split; [exact ofit_smawk_ok|exact ofit_smawk_blind]. Qed.

(* the shortcut hypothesis is C05(b): with cw c <= utf8_len c and the ASCII separator it is
   a theorem for first-fit (any oracle) and for the reference optimal-fit *)
Theorem C13_shortcut_ok_first_fit : forall (cw : char -> N) alnum lbc custom_sp ofit o first p,
  (forall c, cw c <= utf8_len c) -> SplitterOK custom_sp -> o_alg o = FirstFit -> o_sep o = SepAscii ->
  ShortcutOK cw alnum lbc custom_sp ofit o first p.
Proof.
  intros cw alnum lbc custom_sp ofit o first p Hcw HS Ha Hsep Hlt Hind.
  eexists. split.
  - eapply shortcut_slow_first_fit; try eassumption. apply TrimOK_ascii; assumption.
  - reflexivity || (unfold one_line; cbn [map l_text]; rewrite Hind; reflexivity).
Qed.

Theorem C13_shortcut_ok_optimal_fit : forall (cw : char -> N) alnum lbc custom_sp P o first p,
  (forall c, cw c <= utf8_len c) -> SplitterOK custom_sp -> o_alg o = OptimalFit P -> o_sep o = SepAscii ->
  ShortcutOK cw alnum lbc custom_sp ofit_dp o first p.
Proof.
  intros cw alnum lbc custom_sp P o first p Hcw HS Ha Hsep Hlt Hind.
  eexists. split.
  - eapply shortcut_slow_optimal_fit; try eassumption. apply TrimOK_ascii; assumption.
  - unfold one_line; cbn [map l_text]; rewrite Hind; reflexivity.
Qed.

(* stages *)
Theorem C13_strip : forall l, WF l -> strip (render l) = plain l.
Proof. exact K1_strip. Qed.

Theorem C13_ascii_words : forall (cw : char -> N) items, WF items -> Attached items ->
  map strip_word (find_words_ascii cw (render items)) = find_words_ascii cw (plain items) /\
  Forall (fun w => final_state Normal (w_word w) = Normal) (find_words_ascii cw (render items)).
Proof. exact K2_words. Qed.

Theorem C13_unicode_words : forall (cw : char -> N) lbc items, WF items -> Attached items ->
  Lossless.OracleOK (plain items) (lbc (plain items)) ->
  map strip_word (find_words_unicode cw lbc (render items)) = find_words_unicode cw lbc (plain items) /\
  Forall (fun w => final_state Normal (w_word w) = Normal) (find_words_unicode cw lbc (render items)).
Proof. exact K7_words. Qed.

Theorem C13_touching_is_attached : forall l, Touching l -> Attached l.
Proof. exact Touching_Attached. Qed.

Print Assumptions C13_wrap.
Print Assumptions C13_reference_oracle.
Print Assumptions C13_smawk_oracle.
Print Assumptions C13_shortcut_ok_first_fit.
Print Assumptions C13_shortcut_ok_optimal_fit.
Print Assumptions C13_strip.
Print Assumptions C13_ascii_words.
Print Assumptions C13_unicode_words.
Print Assumptions C13_touching_is_attached.
