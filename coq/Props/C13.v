(* C13 — ANSI colour codes do not change where lines break.
   Stage theorems (the assembled wrap-level statement is pending): widths are blind to
   well-formed sequences, force-breaking never cuts a sequence, and the Unicode
   separator places every boundary at top level, before a sequence that directly
   precedes the break. *)
From TW Require Import Wrap.
From TW Require Import EscFacts Lossless SplitBreak.

(* the display width of well-formed text is that of the text with the sequences removed *)
Theorem C13_width_blind : forall (cw : char -> N) t v, Parse t v -> dw cw t = dw cw v /\ strip t = v.
Proof.
  intros cw t v H. destruct (parse_machine t v H) as [_ Hs]. split; [|exact Hs].
  rewrite (dw_strip cw t), Hs.
  assert (Hv : Forall (fun c => c <> ESC) v).
  { clear Hs. induction H; auto. }
  rewrite (dw_strip cw v). f_equal. symmetry.
  exact (proj2 (parse_machine v v (esc_free_parse v Hv))).
Qed.

Theorem C13_break_never_cuts_a_sequence : forall (cw : char -> N) lim wd ps1 ps2,
  break_apart cw lim wd = ps1 ++ ps2 -> ps2 <> [] ->
  final_state Normal (concat (map w_word ps1)) = Normal.
Proof. exact break_apart_no_cut_in_escape. Qed.

Theorem C13_unicode_boundaries_at_top_level : forall line opps,
  OracleOK (strip line) opps ->
  let kept := filter (keep_opportunity (strip line)) opps in
  let cuts := cut_positions kept (idx_map line) in
  Forall2 (fun p o =>
     final_state Normal (firstn p line) = Normal /\ blen (strip (firstn p line)) = o /\
     forall p', (p' < p)%nat -> final_state Normal (firstn p' line) = Normal ->
                blen (strip (firstn p' line)) < o) cuts kept.
Proof. exact unicode_cuts_top. Qed.

Print Assumptions C13_width_blind.
Print Assumptions C13_break_never_cuts_a_sequence.
Print Assumptions C13_unicode_boundaries_at_top_level.
