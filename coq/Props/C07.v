(* C07 — first-fit is greedy-maximal (exact integer arithmetic, NumZ).
   [Greedy] is declarative: every fragment that is not the first of its line fitted
   (accumulated width + its width + its penalty <= the k-th line width, last width
   repeating), and the first fragment of each following line did not fit.  The second
   theorem shows [Greedy] characterises the output (uniqueness), so the statement is
   not a restatement of the loop. *)
From Coq Require Import ZArith.
From TW Require Import FirstFit Wrap.
From TW Require Import Greedy.

Theorem C07_first_fit_greedy : forall (A : Type) (m : A -> frag NumZ) (xs : list A) (lws : list Z),
  Greedy A m lws (first_fit m xs lws).
Proof. exact first_fit_greedy. Qed.

Theorem C07_greedy_unique : forall (A : Type) (m : A -> frag NumZ) (xs : list A) (lws : list Z)
  (lines : list (list A)),
  xs <> [] -> concat lines = xs -> Forall (fun l => l <> []) lines ->
  Greedy A m lws lines -> lines = first_fit m xs lws.
Proof. exact greedy_unique. Qed.

(* text level: with the first-fit algorithm, the groups that wrap reassembles into lines
   are the greedy arrangement of the paragraph's words for the two line widths *)
Theorem C07_text_level : forall ofit (ws : list word) (lws : list N),
  exists groups, run_alg ofit FirstFit ws lws = Some groups /\
                 Greedy word word_frag (map Z.of_N lws) groups.
Proof.
  intros ofit ws lws. eexists. split; [reflexivity|]. apply first_fit_greedy.
Qed.

Print Assumptions C07_first_fit_greedy.
Print Assumptions C07_greedy_unique.
Print Assumptions C07_text_level.
