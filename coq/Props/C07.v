(* C07 — first-fit is greedy-maximal (exact integer arithmetic, NumZ).
   [Greedy] is declarative: every fragment that is not the first of its line fitted
   (accumulated width + its width + its penalty <= the k-th line width, last width
   repeating), and the first fragment of each following line did not fit.  The second
   theorem shows [Greedy] characterises the output (uniqueness), so the statement is
   not a restatement of the loop. *)
From Coq Require Import ZArith.
From TW Require Import FirstFit Wrap.
From TW Require Import Greedy.

Theorem C07_first_fit_greedy : forall (A : Type) (m : A -> frag NumZ) (xs : list A) (lws : list Z),
  Greedy A m lws (first_fit m xs lws).
Proof. exact first_fit_greedy. Qed.

Theorem C07_greedy_unique : forall (A : Type) (m : A -> frag NumZ) (xs : list A) (lws : list Z)
  (lines : list (list A)),
  xs <> [] -> concat lines = xs -> Forall (fun l => l <> []) lines ->
  Greedy A m lws lines -> lines = first_fit m xs lws.
Proof. exact greedy_unique. Qed.

(* text level: with the first-fit algorithm, the groups that wrap reassembles into lines
   are the greedy arrangement of the paragraph's words for the two line widths *)
Theorem C07_text_level : forall ofit (ws : list word) (lws : list N),
  exists groups, run_alg ofit FirstFit ws lws = Some groups /\
                 Greedy word word_frag (map Z.of_N lws) groups.
Proof.
  intros ofit ws lws. eexists. split; [reflexivity|]. apply first_fit_greedy.
Qed.

(* at the level of wrap and fill themselves (found missing by an audit: C07_text_level above is about run_alg on an arbitrary word list): for every paragraph k of the text, the texts of the lines wrap returns for it are the lines rendered from the groups first-fit forms from THAT paragraph's pipeline fragments for the widths line_widths cw o (k =? 0) -- only the first paragraph's first line is measured against the initial indent -- and that grouping is Greedy and the only greedy one.  TrimOK (the paragraph's fragments do not end in a space) is a theorem for the ASCII separator and, under the oracle hypotheses, for the Unicode one (Props/C05.v); it is needed because the byte-length shortcut trims trailing spaces.  fill is the join of those lines. *)
From TW Require Import WrapLevel.
Theorem C07_wrap_level :
  forall (cw : Chars.char -> BinNums.N) (alnum : Chars.char -> bool)
           (lbc custom_sp : Chars.str -> list BinNums.N),
         (forall c : Chars.char, BinNat.N.le (cw c) (Chars.utf8_len c)) ->
         forall (ofit : OptFit.penalties -> list Word.word -> list BinNums.N -> option (list (list Word.word)))
           (o : Wrap.options) (text : Chars.str),
         Pipeline.OfitOK ofit ->
         Pipeline.SplitterOK custom_sp ->
         Wrap.o_alg o = Wrap.FirstFit ->
         exists (ls : list Wrap.oline) (pls : list (list Wrap.oline)),
           Wrap.wrap cw alnum lbc custom_sp ofit o text = Some ls /\
           Wrap.fill cw alnum lbc custom_sp ofit o text =
           Some (Chars.join (Wrap.le_str (Wrap.o_le o)) (List.map Wrap.l_text ls)) /\
           ls = List.concat pls /\
           length pls = length (Wrap.split_le (Wrap.o_le o) text) /\
           (forall (k : nat) (p : Chars.str),
            List.nth_error (Wrap.split_le (Wrap.o_le o) text) k = Some p ->
            Fits.TrimOK cw alnum lbc custom_sp o (PeanoNat.Nat.eqb k 0) p ->
            exists (bws : list Word.word) (pl : list Wrap.oline),
              List.nth_error pls k = Some pl /\
              option_map (List.map (Wrap.shift_cow (para_offset o text k)))
                (Wrap.wrap_single_line cw alnum lbc custom_sp ofit o (PeanoNat.Nat.eqb k 0) p) = 
              Some pl /\
              Pipeline.pipeline_words cw alnum lbc custom_sp o (PeanoNat.Nat.eqb k 0) p = Some bws /\
              Pipeline.gtext bws = p /\
              List.map Wrap.l_text pl =
              List.map Wrap.l_text
                (group_lines o (PeanoNat.Nat.eqb k 0) bws
                   (FirstFit.first_fit Wrap.word_frag bws
                      (List.map BinInt.Z.of_N (Pipeline.line_widths cw o (PeanoNat.Nat.eqb k 0))))) /\
              List.concat
                (FirstFit.first_fit Wrap.word_frag bws
                   (List.map BinInt.Z.of_N (Pipeline.line_widths cw o (PeanoNat.Nat.eqb k 0)))) = bws /\
              Greedy.Greedy Word.word Wrap.word_frag
                (List.map BinInt.Z.of_N (Pipeline.line_widths cw o (PeanoNat.Nat.eqb k 0)))
                (FirstFit.first_fit Wrap.word_frag bws
                   (List.map BinInt.Z.of_N (Pipeline.line_widths cw o (PeanoNat.Nat.eqb k 0)))) /\
              (forall lines : list (list Word.word),
               bws <> nil ->
               List.concat lines = bws ->
               List.Forall (fun l : list Word.word => l <> nil) lines ->
               Greedy.Greedy Word.word Wrap.word_frag
                 (List.map BinInt.Z.of_N (Pipeline.line_widths cw o (PeanoNat.Nat.eqb k 0))) lines ->
               lines =
               FirstFit.first_fit Wrap.word_frag bws
                 (List.map BinInt.Z.of_N (Pipeline.line_widths cw o (PeanoNat.Nat.eqb k 0))))).
Proof. exact (@wrap_first_fit_groups). Qed.

(* the boolean the L2 layer runs on the implementation's groups (extracted) is Greedy *)
From TW Require Import GreedyB.
Theorem C07_checker_sound : forall (A : Type) (m : A -> Num.frag Num.NumZ) (lws : list (Num.T Num.NumZ)) (lines : list (list A)),
  greedy_b Num.NumZ A m lws lines = true -> Greedy.Greedy A m lws lines.
Proof. exact greedy_b_sound. Qed.
Theorem C07_checker_complete : forall (A : Type) (m : A -> Num.frag Num.NumZ) (lws : list BinNums.Z) (lines : list (list A)),
  Greedy.Greedy A m lws lines -> greedy_b Num.NumZ A m lws lines = true.
Proof. exact greedy_b_complete. Qed.
Print Assumptions C07_checker_sound.
Print Assumptions C07_checker_complete.
Print Assumptions C07_wrap_level.
Print Assumptions C07_first_fit_greedy.
Print Assumptions C07_greedy_unique.
Print Assumptions C07_text_level.
