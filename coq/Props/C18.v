(* C18 — dedent removes exactly the longest common whitespace margin (model of the
   repaired code: whitespace-only lines never narrow the margin). *)
From TW Require Import Indent.
From TW Require Import IndentFacts.

(* margin ls = longest common prefix of the leading whitespace of the non-blank lines *)
Theorem C18_margin : forall ls,
  let '(p0, rest) := dedent_first ls in dedent_narrow rest p0 = margin ls.
Proof. exact dedent_margin. Qed.

Theorem C18_margin_is_longest_common_whitespace_prefix : forall ls,
  ws_only (margin ls) /\
  (forall l, In l ls -> has_nonws l = true -> starts_with l (margin ls) = true) /\
  (forall q, ws_only q -> (exists l, In l ls /\ has_nonws l = true) ->
     (forall l, In l ls -> has_nonws l = true -> starts_with l q = true) ->
     starts_with (margin ls) q = true).
Proof.
  intros ls. split; [apply margin_ws|]. split; [apply margin_prefix|]. intros q. apply margin_longest.
Qed.

Theorem C18_spec : forall s,
  dedent s = (let ls := lines s in let mg := margin ls in
              let body := concat (map (fun l => (if has_nonws l then skipn (length mg) l else []) ++ [LF]) ls) in
              if ends_with s [LF] then body else removelast body).
Proof. exact dedent_spec. Qed.

(* idempotent, except in the corner recorded as known finding LineEndsInCR: a non-blank
   line that still ends in CR after its line ending was removed ("x\r\r\ny") loses
   another CR on the second pass *)
Theorem C18_idempotent : forall s,
  (forall l, In l (terminated_lines s) -> has_nonws l = true -> ends_with l [CR] = false) ->
  dedent (dedent s) = dedent s.
Proof. exact dedent_idem. Qed.

Theorem C18_known_finding_witness :
  let s := [120; 13; 13; 10; 121] in dedent (dedent s) <> dedent s.
Proof. vm_compute. discriminate. Qed.

(* dedent after indent with a whitespace prefix (without a newline in it) *)
Theorem C18_dedent_indent : forall s p,
  Forall (fun c => is_whitespace c = true) p -> Forall (fun c => c <> LF) p ->
  dedent (indent s p) = dedent s.
Proof. exact dedent_indent_strong. Qed.

(* the clause 'preserves the number of lines and the presence or absence of a final newline' (audit): read literally it is false -- dedent "a\n " = "a\n", AuditFacts.dedent_final_newline_not_preserved: a whitespace-only last line without a newline becomes the empty string -- what holds, for every string, is that the line breaks are preserved: the same number of LF, and piece by piece (split at every LF) a whitespace-only piece becomes empty and any other piece loses exactly the margin (and the CR that str::lines strips before an LF) *)
From TW Require Import AuditFacts.
Theorem C18_line_breaks_preserved :
  forall s : Chars.str,
         List.count_occ BinNat.N.eq_dec (Indent.dedent s) Chars.LF = List.count_occ BinNat.N.eq_dec s Chars.LF.
Proof. exact (@dedent_count_lf). Qed.

Theorem C18_piece_by_piece :
  forall (s : Chars.str) (k : nat),
         (k < length (Chars.split_lf s))%nat ->
         let mg := IndentFacts.margin (Chars.lines s) in
         let p := List.nth k (Chars.split_lf s) nil in
         let line := if PeanoNat.Nat.ltb (S k) (length (Chars.split_lf s)) then Chars.strip_cr p else p in
         let p' := List.nth k (Chars.split_lf (Indent.dedent s)) nil in
         Indent.has_nonws line = Indent.has_nonws p /\
         (Indent.has_nonws p = false -> p' = nil) /\ (Indent.has_nonws p = true -> line = (mg ++ p')%list).
Proof. exact (@dedent_piece). Qed.

Print Assumptions C18_line_breaks_preserved.
Print Assumptions C18_piece_by_piece.
Print Assumptions C18_margin.
Print Assumptions C18_margin_is_longest_common_whitespace_prefix.
Print Assumptions C18_spec.
Print Assumptions C18_idempotent.
Print Assumptions C18_known_finding_witness.
Print Assumptions C18_dedent_indent.
