(* C17 — fill_inplace only turns spaces into newlines and agrees with fill. *)
From TW Require Import Wrap.
From TW Require Import InplaceFacts.

(* never fails (every index hits a one-byte space), same length, differs only where a
   space became a newline *)
Theorem C17_total : forall (cw : char -> N) text w, exists t', fill_inplace cw text w = Some t'.
Proof. exact fill_inplace_some. Qed.

Theorem C17_shape : forall (cw : char -> N) text w t',
  fill_inplace cw text w = Some t' ->
  length t' = length text /\ blen t' = blen text /\
  forall i, nth i t' 0 = nth i text 0 \/ (nth i text 0 = SP /\ nth i t' 0 = LF).
Proof. exact fill_inplace_shape. Qed.

(* splitting at newlines and trimming trailing spaces gives wrap with the documented
   options; needs cw c <= utf8_len c (true of both width functions, C10_widths): for a
   hypothetical width function wider than a byte per character it is false
   (InplaceFacts.fill_inplace_wrap_needs_cw_le) *)
Theorem C17_agrees_with_wrap : forall (cw : char -> N), (forall c, cw c <= utf8_len c) ->
  forall alnum lbc custom_sp ofit text w t',
  fill_inplace cw text w = Some t' ->
  exists ls, wrap cw alnum lbc custom_sp ofit (doc_options w) text = Some ls /\
             map trim_end_sp (split_lf t') = map l_text ls.
Proof. exact fill_inplace_wrap. Qed.

Print Assumptions C17_total.
Print Assumptions C17_shape.
Print Assumptions C17_agrees_with_wrap.
