(* C15 — unfill inverts fill and recovers indents, width and line ending.
   The round trip is stated for the shape that filling with breaks at spaces only
   produces: [filled ii si le groups] = the lines (indent_k ++ words of group k joined by
   single spaces) joined by the line ending, for ANY partition [groups] of the words —
   hence for either algorithm and any width; C15_unfill_inverts_fill below composes it
   with the fact that fill produces this shape (Proofs/FillShape.v). *)
From TW Require Import Refill.
From TW Require Import UnfillFacts.

(* words: non-empty, no space/CR/LF, first character not a prefix character *)
Theorem C15_roundtrip : forall (cw : char -> N) ii si le (groups : list (list str)) (ht : bool),
  pchars ii -> pchars si -> groups <> [] -> Forall group_ok groups ->
  unfill cw (filled ii si le groups ++ (if ht then le_str le else [])) =
  Some (mkUnfilled (join [SP] (concat groups) ++ (if ht then le_str le else []))
                   (max_width cw (filled_lines ii si groups))
                   ii (if many groups then si else [])
                   (if many groups || ht then le else LE_LF)).
Proof. exact unfill_filled. Qed.

(* structural half, for ALL strings: unfill never fails; the indents consist of prefix
   characters and are prefixes of the lines they describe; the text has no line break
   other than a final one; the width is the widest line *)
Theorem C15_total : forall (cw : char -> N) text, exists u, unfill cw text = Some u.
Proof. exact unfill_total. Qed.

Theorem C15_structure : forall (cw : char -> N) text u, unfill cw text = Some u ->
  pchars (u_ii u) /\ pchars (u_si u) /\
  prefix_of (u_ii u) (hd [] (lines text)) /\ Forall (prefix_of (u_si u)) (tl (lines text)) /\
  prefix_of (u_ii u) (hd [] (map fst (nel text))) /\
  Forall (prefix_of (u_si u)) (tl (map fst (nel text))) /\
  (exists body tail, u_text u = body ++ tail /\ lf_free body /\
     (tail = [] \/ (tail = le_str (u_le u) /\ ends_with text tail = true))) /\
  u_width u = max_width cw (lines text) /\
  u_le u = match detected text with Some le => le | None => LE_LF end.
Proof. exact unfill_structure. Qed.

(* for input without empty lines: CRLF exactly when there is at least one line ending and
   all of them are CRLF *)
Theorem C15_line_ending : forall (cw : char -> N) text u, unfill cw text = Some u ->
  Forall proper_piece (removelast (split_lf text)) ->
  (u_le u = LE_CRLF <->
   removelast (split_lf text) <> [] /\
   Forall (fun p => last_opt p = Some CR) (removelast (split_lf text))).
Proof. exact unfill_le_crlf. Qed.

(* the same, with fill itself: for a paragraph of space-separated words (non-empty, no
   space/CR/LF, not starting with a prefix character), breaks at spaces only (ASCII
   separator, no splitter, break_words off), ANY width, either algorithm (any oracle that
   returns a partition), either line ending, with or without a trailing line ending:
   unfill (fill o para ++ tail) returns the paragraph (plus the tail), the initial indent,
   with at least two lines the subsequent indent and the line ending, and the width of
   the widest line *)
From TW Require Import Pipeline FillShape.
Theorem C15_unfill_inverts_fill : forall cw alnum lbc custom_sp ofit o (words : list str),
  o_bw o = false -> o_spl o = SplNone -> o_sep o = SepAscii -> OfitOK ofit ->
  Forall word_ok words -> words <> [] -> pchars (o_ii o) -> pchars (o_si o) ->
  forall ht : bool,
  exists groups, concat groups = words /\
    fill cw alnum lbc custom_sp ofit o (join [SP] words) = Some (filled (o_ii o) (o_si o) (o_le o) groups) /\
    unfill cw (filled (o_ii o) (o_si o) (o_le o) groups ++ (if ht then le_str (o_le o) else [])) =
    Some (mkUnfilled (join [SP] words ++ (if ht then le_str (o_le o) else []))
                     (max_width cw (filled_lines (o_ii o) (o_si o) groups))
                     (o_ii o) (if many groups then o_si o else [])
                     (if many groups || ht then o_le o else LE_LF)).
Proof. exact unfill_fill. Qed.

(* tie to the source text: unfill's prefix characters are the literals of `prefix_chars`
   in /repo/src/refill.rs on this run *)
From TW Require Import SrcConsts SrcConstsFacts.
Theorem C15_source_constants : forall c, is_prefix_char c = existsb (N.eqb c) src_prefix_chars.
Proof. exact src_prefix_chars_ok. Qed.
Print Assumptions C15_source_constants.

Print Assumptions C15_unfill_inverts_fill.
Print Assumptions C15_roundtrip.
Print Assumptions C15_total.
Print Assumptions C15_structure.
Print Assumptions C15_line_ending.
