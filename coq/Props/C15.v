(* C15 — unfill inverts fill and recovers indents, width and line ending.
   The round trip is stated for the shape that filling with breaks at spaces only
   produces: [filled ii si le groups] = the lines (indent_k ++ words of group k joined by
   single spaces) joined by the line ending, for ANY partition [groups] of the words —
   hence for either algorithm and any width.  (That fill produces this shape is the
   specialisation of C01 proved in Props/C01.v.) *)
From TW Require Import Refill.
From TW Require Import UnfillFacts.

(* words: non-empty, no space/CR/LF, first character not a prefix character *)
Theorem C15_roundtrip : forall (cw : char -> N) ii si le (groups : list (list str)) (ht : bool),
  pchars ii -> pchars si -> groups <> [] -> Forall group_ok groups ->
  unfill cw (filled ii si le groups ++ (if ht then le_str le else [])) =
  Some (mkUnfilled (join [SP] (concat groups) ++ (if ht then le_str le else []))
                   (max_width cw (filled_lines ii si groups))
                   ii (if many groups then si else [])
                   (if many groups || ht then le else LE_LF)).
Proof. exact unfill_filled. Qed.

(* structural half, for ALL strings: unfill never fails; the indents consist of prefix
   characters and are prefixes of the lines they describe; the text has no line break
   other than a final one; the width is the widest line *)
Theorem C15_total : forall (cw : char -> N) text, exists u, unfill cw text = Some u.
Proof. exact unfill_total. Qed.

Theorem C15_structure : forall (cw : char -> N) text u, unfill cw text = Some u ->
  pchars (u_ii u) /\ pchars (u_si u) /\
  prefix_of (u_ii u) (hd [] (lines text)) /\ Forall (prefix_of (u_si u)) (tl (lines text)) /\
  prefix_of (u_ii u) (hd [] (map fst (nel text))) /\
  Forall (prefix_of (u_si u)) (tl (map fst (nel text))) /\
  (exists body tail, u_text u = body ++ tail /\ lf_free body /\
     (tail = [] \/ (tail = le_str (u_le u) /\ ends_with text tail = true))) /\
  u_width u = max_width cw (lines text) /\
  u_le u = match detected text with Some le => le | None => LE_LF end.
Proof. exact unfill_structure. Qed.

(* for input without empty lines: CRLF exactly when there is at least one line ending and
   all of them are CRLF *)
Theorem C15_line_ending : forall (cw : char -> N) text u, unfill cw text = Some u ->
  Forall proper_piece (removelast (split_lf text)) ->
  (u_le u = LE_CRLF <->
   removelast (split_lf text) <> [] /\
   Forall (fun p => last_opt p = Some CR) (removelast (split_lf text))).
Proof. exact unfill_le_crlf. Qed.

Print Assumptions C15_roundtrip.
Print Assumptions C15_total.
Print Assumptions C15_structure.
Print Assumptions C15_line_ending.
