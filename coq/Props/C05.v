(* C05 — text that already fits is returned unchanged; the shortcut path is unobservable.
   one_line o first p = the line (indent ++ p without trailing spaces), Borrowed at offset
   0 when the indent is empty.
   Hypotheses and where they come from:
   * TrimOK (the word list's body does not end in a space): a theorem for the ASCII
     separator; for the Unicode separator it follows from OracleOK and "no break between
     two spaces" (UAX #14 LB7), both asserted on every generated case;
   * Additive (the cached widths add up to the paragraph's display width): its negation is
     the listed known finding CutInsideEscape (D6); it follows from TopLevelCuts;
   * PenOK (an inserted hyphen has room): its negation is the listed known finding
     PenaltyWithoutRoom (D9); a theorem for the built-in splitters. *)
From TW Require Import Wrap Custom.
From TW Require Import Pipeline Lossless Fits.

(* (a) fits => exactly one line, first-fit, any oracle *)
Theorem C05_fits_first_fit : forall cw alnum lbc custom_sp ofit o first p,
  SplitterOK custom_sp -> o_alg o = FirstFit ->
  TrimOK cw alnum lbc custom_sp o first p -> Additive cw alnum lbc custom_sp o first p ->
  (forall bws, pipeline_words cw alnum lbc custom_sp o first p = Some bws -> PenOK bws) ->
  dw cw (trim_end_sp p) + dw cw (if first then o_ii o else o_si o) <= o_width o ->
  slow_path cw alnum lbc custom_sp ofit o first p = Some [one_line o first p].
Proof. exact fits_first_fit. Qed.

(* (a) optimal-fit with the reference oracle; default penalties are an instance (any
   penalties with a positive per-line penalty do) *)
Theorem C05_fits_optimal_fit : forall cw alnum lbc custom_sp P o first p,
  SplitterOK custom_sp -> o_alg o = OptimalFit P -> 0 < p_nline P ->
  TrimOK cw alnum lbc custom_sp o first p -> Additive cw alnum lbc custom_sp o first p ->
  dw cw (trim_end_sp p) + dw cw (if first then o_ii o else o_si o) <= o_width o ->
  slow_path cw alnum lbc custom_sp ofit_dp o first p = Some [one_line o first p].
Proof. exact fits_optimal_fit_gen. Qed.

(* (b) the byte-length shortcut of wrap is unobservable: for ALL paragraphs (no additivity,
   no PenOK: every cached width is at most a byte length) *)
Theorem C05_shortcut_first_fit : forall (cw : char -> N) alnum lbc custom_sp,
  (forall c, cw c <= utf8_len c) -> forall ofit o first p,
  SplitterOK custom_sp -> o_alg o = FirstFit -> TrimOK cw alnum lbc custom_sp o first p ->
  blen p < o_width o -> (if first then o_ii o else o_si o) = [] -> p <> [] ->
  wrap_single_line cw alnum lbc custom_sp ofit o first p = slow_path cw alnum lbc custom_sp ofit o first p.
Proof. exact shortcut_unobservable_first_fit. Qed.

Theorem C05_shortcut_optimal_fit : forall (cw : char -> N) alnum lbc custom_sp,
  (forall c, cw c <= utf8_len c) -> forall P o first p,
  SplitterOK custom_sp -> o_alg o = OptimalFit P -> TrimOK cw alnum lbc custom_sp o first p ->
  blen p < o_width o -> (if first then o_ii o else o_si o) = [] -> p <> [] ->
  wrap_single_line cw alnum lbc custom_sp ofit_dp o first p = slow_path cw alnum lbc custom_sp ofit_dp o first p.
Proof. exact shortcut_unobservable_optimal_fit. Qed.

(* for the empty paragraph the two paths differ only in the Cow's address (a borrowed empty
   slice of the buffer vs a static ""), never in the text *)
Theorem C05_shortcut_texts : forall (cw : char -> N) alnum lbc custom_sp,
  (forall c, cw c <= utf8_len c) -> forall ofit o first p,
  SplitterOK custom_sp -> o_alg o = FirstFit -> TrimOK cw alnum lbc custom_sp o first p ->
  texts (wrap_single_line cw alnum lbc custom_sp ofit o first p) =
  texts (slow_path cw alnum lbc custom_sp ofit o first p).
Proof. exact shortcut_texts_first_fit. Qed.

(* (c) fill's own shortcut is unobservable, for all texts and options *)
Theorem C05_fill_shortcut : forall cw alnum lbc custom_sp ofit o t,
  fill cw alnum lbc custom_sp ofit o t = fill_slow cw alnum lbc custom_sp ofit o t.
Proof. exact fill_shortcut_unobservable. Qed.

(* the hypotheses are theorems in the common cases *)
Theorem C05_hypotheses : forall cw alnum lbc custom_sp o first p, SplitterOK custom_sp ->
  (o_sep o = SepAscii -> TrimOK cw alnum lbc custom_sp o first p) /\
  (o_sep o = SepUnicode -> OracleOK (strip p) (lbc (strip p)) ->
     NoBreakBetweenSpaces (strip p) (lbc (strip p)) -> TrimOK cw alnum lbc custom_sp o first p) /\
  (o_spl o <> SplCustom -> forall bws, pipeline_words cw alnum lbc custom_sp o first p = Some bws -> PenOK bws) /\
  (cw SP = 1 -> TrimOK cw alnum lbc custom_sp o first p ->
     (forall bws, pipeline_words cw alnum lbc custom_sp o first p = Some bws -> TopLevelCuts bws) ->
     Additive cw alnum lbc custom_sp o first p).
Proof.
  intros cw alnum lbc custom_sp o first p HS. split; [|split; [|split]].
  - intros Ha. apply TrimOK_ascii; assumption.
  - intros Ha Hb Hc. apply TrimOK_unicode; assumption.
  - intros Ha bws Hb. eapply PenOK_builtin; eassumption.
  - intros Ha Hb Hc. apply Additive_top_level; assumption.
Qed.

Print Assumptions C05_fits_first_fit.
Print Assumptions C05_fits_optimal_fit.
Print Assumptions C05_shortcut_first_fit.
Print Assumptions C05_shortcut_optimal_fit.
Print Assumptions C05_shortcut_texts.
Print Assumptions C05_fill_shortcut.
Print Assumptions C05_hypotheses.
