(* C05 — text that already fits is returned unchanged; the shortcut path is
   unobservable.  Fragment level (assembled statement pending Proofs/Pipeline.v and
   Proofs/Fits.v): if all fragments fit on the first line, first-fit returns one line. *)
From Coq Require Import ZArith.
From TW Require Import Wrap.
From TW Require Import InplaceFacts EscFacts.

Theorem C05_display_width_le_byte_length : forall (cw : char -> N), (forall c, cw c <= utf8_len c) ->
  forall t, dw cw t <= blen t.
Proof. exact dw_le_blen. Qed.

(* wcost x = cached width + whitespace length *)
Theorem C05_first_fit_one_line : forall (W : N) (xs : list word),
  Forall (fun x => w_pen x = []) xs -> sum_N (map wcost xs) <= W ->
  first_fit word_frag xs [Z.of_N W] = [xs].
Proof. exact first_fit_fits. Qed.

Print Assumptions C05_display_width_le_byte_length.
Print Assumptions C05_first_fit_one_line.
