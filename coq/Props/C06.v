(* C06 — both line-breaking algorithms return an ordered partition of the fragments.
   Proved for every numeric structure [Num] (no laws assumed: covers IEEE doubles,
   NaN and infinities included). *)
From TW Require Import FirstFit OptFit.
From TW Require Import Smawk.
From TW Require Import Partition SmawkShape.

Theorem C06_first_fit : forall (Nm : Num) (A : Type) (m : A -> frag Nm) (xs : list A) (lws : list (T Nm)),
  concat (first_fit m xs lws) = xs /\
  (xs <> [] -> Forall (fun l => l <> []) (first_fit m xs lws)) /\
  (xs = [] -> first_fit m xs lws = [[]]).
Proof.
  intros. split; [apply first_fit_concat|]. split; [apply first_fit_nonempty|].
  intros ->. reflexivity.
Qed.

(* optimal fit: for whatever column minima the external smawk crate returns, provided
   they have the shape smawk structurally guarantees (one entry per column, entry 0 =
   (0, initial), row < column) *)
Theorem C06_optimal_fit : forall (Nm : Num) (A : Type) (minima : list (nat * T Nm)) (xs : list A),
  minima_ok Nm minima (length xs) ->
  exists groups,
    optimal_fit_with minima xs = Some groups /\
    concat groups = xs /\
    (xs <> [] -> Forall (fun l => l <> []) groups) /\
    (xs = [] -> groups = [[]]).
Proof. exact optimal_fit_with_partition. Qed.

(* and unconditionally for the executable model of the smawk crate (smawk_inner +
   online_column_minima, Model/Smawk.v), for every Num and every "equality" eqT — no law is
   assumed, so NaN-like and inconsistent comparisons are covered: none of the crate's
   assert!s or index operations can fail, and back-tracking yields an ordered partition *)
Theorem C06_optimal_fit_smawk : forall (Nm : Num) (eqT : T Nm -> T Nm -> bool) (A : Type)
  (m : A -> frag Nm) P (xs : list A) (lws : list (T Nm)),
  exists groups, optimal_fit_smawk eqT m P xs lws = Some groups /\ concat groups = xs /\
    (xs <> [] -> Forall (fun l => l <> []) groups) /\ (xs = [] -> groups = [[]]).
Proof. exact optimal_fit_smawk_total. Qed.

Theorem C06_smawk_shape : forall (Nm : Num) eqT P (fs : list (frag Nm)) lws minima,
  smawk_minima Nm eqT P fs lws = Some minima -> minima_ok Nm minima (length fs).
Proof. exact smawk_minima_ok. Qed.

(* the per-case check: the boolean [chain_b] that L2 runs on the (offset, length) pairs
   read off the implementation's slices accepts exactly the ordered partitions into
   non-empty lines *)
From TW Require Import OptB.
Theorem C06_checker_sound : forall (A : Type) (xs : list A) rs,
  chain_b (length xs) 0 rs = true ->
  concat (map (fun '(s, e) => slice xs s e) rs) = xs /\
  Forall (fun l => l <> []) (map (fun '(s, e) => slice xs s e) rs).
Proof.
  intros A xs rs H. apply chain_b_spec in H.
  destruct (slice_chain_concat A xs rs 0%nat (length xs) H (le_n _)) as [_ [Hc Hne]].
  split; [rewrite Hc; apply slice_all|exact Hne].
Qed.

Print Assumptions C06_checker_sound.
Print Assumptions C06_optimal_fit_smawk.
Print Assumptions C06_smawk_shape.
Print Assumptions C06_first_fit.
Print Assumptions C06_optimal_fit.
