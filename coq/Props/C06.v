(* C06 — both line-breaking algorithms return an ordered partition of the fragments.
   Proved for every numeric structure [Num] (no laws assumed: covers IEEE doubles,
   NaN and infinities included). *)
From TW Require Import FirstFit OptFit.
From TW Require Import Partition.

Theorem C06_first_fit : forall (Nm : Num) (A : Type) (m : A -> frag Nm) (xs : list A) (lws : list (T Nm)),
  concat (first_fit m xs lws) = xs /\
  (xs <> [] -> Forall (fun l => l <> []) (first_fit m xs lws)) /\
  (xs = [] -> first_fit m xs lws = [[]]).
Proof.
  intros. split; [apply first_fit_concat|]. split; [apply first_fit_nonempty|].
  intros ->. reflexivity.
Qed.

(* optimal fit: for whatever column minima the external smawk crate returns, provided
   they have the shape smawk structurally guarantees (one entry per column, entry 0 =
   (0, initial), row < column) *)
Theorem C06_optimal_fit : forall (Nm : Num) (A : Type) (minima : list (nat * T Nm)) (xs : list A),
  minima_ok Nm minima (length xs) ->
  exists groups,
    optimal_fit_with minima xs = Some groups /\
    concat groups = xs /\
    (xs <> [] -> Forall (fun l => l <> []) groups) /\
    (xs = [] -> groups = [[]]).
Proof. exact optimal_fit_with_partition. Qed.

Print Assumptions C06_first_fit.
Print Assumptions C06_optimal_fit.
