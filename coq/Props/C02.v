(* C02 — first-fit lines fit the width unless the line is one unbreakable fragment.
   Text level, for every paragraph of a multi-paragraph text and for initial and
   subsequent indents of different widths (each line is measured against the indent it
   is rendered with — model of the repaired code).
   Hypotheses: cw SP = cw '-' = 1 and cw c <= utf8_len c (true of both width functions,
   C02_width_functions); well-formed indents (IndentsOK: the machine is at top level after
   each indent); a valid custom splitter; and ParaTop: every fragment of every paragraph is
   self-contained with respect to escape sequences.  The negation of ParaTop is the listed
   known finding CutInsideEscape (D6); ESC-free text satisfies it (C02_esc_free). *)
From TW Require Import Wrap Custom.
From TW Require Import Pipeline SplitBreak WidthTableFacts WidthBound.

Section C02.
Variable cw : char -> N.
Variable alnum : char -> bool.
Variable lbc : str -> list N.
Variable custom_sp : str -> list N.
Variable ofit : penalties -> list word -> list N -> option (list (list word)).
Hypothesis cw_SP : cw SP = 1.
Hypothesis cw_HY : cw HY = 1.
Hypothesis cw_le : forall c, cw c <= utf8_len c.
Notation W := (wrap cw alnum lbc custom_sp ofit).

(* every line fits, or the part after the indent is a single fragment, or (known class
   D7) the indent alone is wider than the width and the body has display width 0 *)
Theorem C02_lines_fit : forall o text ls,
  o_alg o = FirstFit -> SplitterOK custom_sp -> IndentsOK o ->
  (forall p, In p (split_le (o_le o) text) -> ParaTop cw alnum lbc custom_sp o p) ->
  W o text = Some ls -> forall i l, nth_error ls i = Some l ->
  let ind := if (i =? 0)%nat then o_ii o else o_si o in
  dw cw (l_text l) <= o_width o \/
  exists p first bws k g,
    In p (split_le (o_le o) text) /\
    pipeline_words cw alnum lbc custom_sp o first p = Some bws /\
    nth_error (ff_groups cw o first bws) k = Some g /\
    l_text l = ind ++ body g ++ lastw_pen g /\
    ((exists w, g = [w]) \/ (o_width o < dw cw ind /\ dw cw (body g) = 0 /\ lastw_pen g = [])).
Proof. exact (wrap_width cw alnum lbc custom_sp ofit cw_SP cw_HY cw_le). Qed.

(* with break_words and a built-in splitter the single fragment has exactly one character
   of non-zero width *)
Theorem C02_break_words : forall o text ls,
  o_alg o = FirstFit -> SplitterOK custom_sp -> IndentsOK o -> o_bw o = true ->
  o_spl o <> SplCustom ->
  (forall p, In p (split_le (o_le o) text) -> ParaTop cw alnum lbc custom_sp o p) ->
  W o text = Some ls -> forall i l, nth_error ls i = Some l ->
  let ind := if (i =? 0)%nat then o_ii o else o_si o in
  dw cw (l_text l) <= o_width o \/
  (exists b, l_text l = ind ++ b /\ nzv cw b = 1%nat) \/
  (o_width o < dw cw ind /\ exists b, l_text l = ind ++ b /\ dw cw b = 0).
Proof. exact (wrap_width_unbreakable cw alnum lbc custom_sp ofit cw_SP cw_HY cw_le). Qed.

(* ESC-free text and indents need no further hypothesis *)
Theorem C02_esc_free : forall o text ls,
  o_alg o = FirstFit -> SplitterOK custom_sp ->
  Forall (fun c => c <> ESC) (o_ii o) -> Forall (fun c => c <> ESC) (o_si o) ->
  Forall (fun c => c <> ESC) text ->
  W o text = Some ls -> forall i l, nth_error ls i = Some l ->
  let ind := if (i =? 0)%nat then o_ii o else o_si o in
  dw cw (l_text l) <= o_width o \/
  exists p first bws k g,
    In p (split_le (o_le o) text) /\
    pipeline_words cw alnum lbc custom_sp o first p = Some bws /\
    nth_error (ff_groups cw o first bws) k = Some g /\
    l_text l = ind ++ body g ++ lastw_pen g /\
    ((exists w, g = [w]) \/ (o_width o < dw cw ind /\ dw cw (body g) = 0 /\ lastw_pen g = [])).
Proof. exact (wrap_width_esc_free cw alnum lbc custom_sp ofit cw_SP cw_HY cw_le). Qed.
End C02.

(* both width functions meet the hypotheses *)
Theorem C02_width_functions :
  (cw_simple SP = 1 /\ cw_simple HY = 1 /\ forall c, cw_simple c <= utf8_len c) /\
  (cw_table SP = 1 /\ cw_table HY = 1 /\ forall c, cw_table c <= utf8_len c).
Proof.
  split; (split; [vm_compute; reflexivity|split; [vm_compute; reflexivity|]]).
  - exact cw_simple_le.
  - exact cw_table_le.
Qed.

Print Assumptions C02_lines_fit.
Print Assumptions C02_break_words.
Print Assumptions C02_esc_free.
Print Assumptions C02_width_functions.
