(* C02 — first-fit lines fit the width unless the line is one unbreakable fragment.
   Fragment level (assembled text-level statement pending Proofs/Pipeline.v): in the
   first-fit arrangement every line with at least two fragments has computed width
   (fragment widths + inner whitespace + the last fragment's penalty) at most the width
   of that line; and force-broken pieces are at most the limit wide unless they consist
   of a single non-zero-width character. *)
From Coq Require Import ZArith Lia.
From TW Require Import Wrap.
From TW Require Import Greedy SplitBreak.

Theorem C02_multi_fragment_lines_fit : forall (A : Type) (m : A -> frag NumZ) xs lws k pre x,
  nth_error (first_fit m xs lws) k = Some (pre ++ [x]) -> pre <> [] ->
  (run_width A m pre + fw (m x) + fpen (m x) <= @nth_width NumZ lws k)%Z.
Proof.
  intros A m xs lws k pre x H Hne.
  exact (proj1 (first_fit_greedy A m xs lws k pre x [] H) Hne).
Qed.

Theorem C02_broken_pieces_bounded : forall (cw : char -> N) lim wd,
  Forall (fun p => w_width p <= lim \/ nzv cw (w_word p) = 1%nat) (break_apart cw lim wd).
Proof. exact break_apart_bound. Qed.

Print Assumptions C02_multi_fragment_lines_fit.
Print Assumptions C02_broken_pieces_bounded.
