(* C10 — display_width is the sum of character widths outside ANSI sequences.
   Statements only; proofs are in Proofs/. *)
From TW Require Import Esc.
From TW Require Import EscFacts WidthTableFacts.

(* (a) for well-formed text (grammar [Parse], independent of the machine) the display
   width is the sum of the per-character widths of what remains after removing the
   CSI and OSC sequences; and the machine's [strip] removes exactly those *)
Theorem C10_wellformed : forall (cw : char -> N) t v,
  Parse t v -> dw cw t = sum_cw cw v /\ strip t = v.
Proof.
  intros cw t v H. destruct (parse_machine t v H) as [_ Hs]. split; [|exact Hs].
  rewrite dw_strip, Hs. reflexivity.
Qed.

(* (b) additive over concatenation of ESC-free strings (more generally: whenever the
   first part leaves the machine at top level) *)
Theorem C10_additive : forall (cw : char -> N) a b,
  Forall (fun c => c <> ESC) a -> dw cw (a ++ b) = dw cw a + dw cw b.
Proof.
  intros cw a b H. apply dw_cut. exact (proj1 (parse_machine a a (esc_free_parse a H))).
Qed.

(* (c) unchanged by inserting well-formed sequences at a top-level character boundary *)
Theorem C10_insert : forall (cw : char -> N) a q b,
  final_state Normal a = Normal -> Parse q [] ->
  dw cw (a ++ q ++ b) = dw cw (a ++ b).
Proof.
  intros cw a q b Ha Hq. destruct (parse_machine q [] Hq) as [Hq1 Hq2].
  rewrite !(dw_cut cw a) by exact Ha. rewrite (dw_cut cw q b Hq1).
  rewrite (dw_strip cw q), Hq2. reflexivity.
Qed.

(* (d) for every text whatsoever, never more than the byte length *)
Theorem C10_le_blen : forall (cw : char -> N), (forall c, cw c <= utf8_len c) ->
  forall t, dw cw t <= blen t.
Proof. exact dw_le_blen. Qed.

(* (e) both per-character width functions meet the hypothesis of (d): the crude rule,
   and the table read off the implementation for every scalar value *)
Theorem C10_widths : (forall c, cw_simple c <= utf8_len c) /\ (forall c, cw_table c <= utf8_len c).
Proof. split; [exact cw_simple_le | exact cw_table_le]. Qed.

(* non-vacuity: a coloured, hyperlinked text is well-formed *)
Example C10_parse_example :
  Parse [27; 91; 51; 49; 109; 72; 105; 27; 93; 56; 59; 59; 7; 33] [72; 105; 33].
Proof.
  apply (P_csi [51; 49] 109); [repeat constructor; discriminate | reflexivity |].
  apply P_char; [discriminate|]. apply P_char; [discriminate|].
  apply (P_osc_bel [56; 59; 59]); [repeat constructor; discriminate |].
  apply P_char; [discriminate|]. constructor.
Qed.

(* tie to the source text: the escape-sequence constants and the width cut-off of the build
   without unicode-width are the literals found in /repo/src/core.rs on this run
   (gen/SrcConsts.v is regenerated from the source by tools/gen_src_consts.py) *)
From TW Require Import SrcConsts SrcConstsFacts.
Theorem C10_source_constants :
  src_csi = (ESC, LBRACK) /\
  (forall c, is_final c = (fst src_ansi_final <=? c) && (c <=? snd src_ansi_final)) /\
  (forall c, cw_simple c = if c <? src_double_width_cutoff then 1 else 2).
Proof. exact (conj src_csi_ok (conj src_ansi_final_ok src_cutoff_ok)). Qed.
(* the recogniser the L2 layer runs on every text (extracted): what it accepts is
   well-formed in the sense of C10_wellformed, with the stripped text it returns *)
From TW Require Import ParseWF.
Theorem C10_checker_sound : forall t v : Chars.str, wf_strip t = Some v -> EscFacts.Parse t v.
Proof. exact wf_strip_sound. Qed.
Print Assumptions C10_checker_sound.
Print Assumptions C10_source_constants.

Print Assumptions C10_wellformed.
Print Assumptions C10_additive.
Print Assumptions C10_insert.
Print Assumptions C10_le_blen.
Print Assumptions C10_widths.
