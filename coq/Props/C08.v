(* C08 — every output line carries the configured indent. *)
From TW Require Import Wrap.
From TW Require Import IndentLines.

(* has_prefix p s := exists r, s = p ++ r.  For EVERY text (empty and whitespace-only
   paragraphs included), every algorithm oracle, separator, splitter and break_words
   setting: the first line starts with initial_indent, every later one with
   subsequent_indent. *)
Theorem C08_indents : forall cw alnum lbc custom_sp ofit o text ls,
  wrap cw alnum lbc custom_sp ofit o text = Some ls ->
  match ls with
  | [] => True
  | l :: r => has_prefix (o_ii o) (l_text l) /\ Forall (fun x => has_prefix (o_si o) (l_text x)) r
  end.
Proof. intros. eapply wrap_indented. eassumption. Qed.

Print Assumptions C08_indents.
