(* C08 — every output line carries the configured indent. *)
From TW Require Import Wrap.
From TW Require Import IndentLines.

(* has_prefix p s := exists r, s = p ++ r.  For EVERY text (empty and whitespace-only
   paragraphs included), every algorithm oracle, separator, splitter and break_words
   setting: the first line starts with initial_indent, every later one with
   subsequent_indent. *)
Theorem C08_indents : forall cw alnum lbc custom_sp ofit o text ls,
  wrap cw alnum lbc custom_sp ofit o text = Some ls ->
  match ls with
  | [] => True
  | l :: r => has_prefix (o_ii o) (l_text l) /\ Forall (fun x => has_prefix (o_si o) (l_text x)) r
  end.
Proof. intros. eapply wrap_indented. eassumption. Qed.

Print Assumptions C08_indents.

(* second half: what follows the indent depends only on the indents' display widths and
   emptiness.  SameShape o o' : the two option records agree on everything but the
   indents, whose display widths and emptiness agree.  Then wrap fails for both or for
   neither, returns the same number of lines, and line i is its own indent followed by
   the SAME rest, with the same Cow kind (and offset). *)
From TW Require Import IndentIndep.

Theorem C08_rest_independent_of_indent_characters : forall cw alnum lbc custom_sp ofit o o' text,
  SameShape cw o o' ->
  (wrap cw alnum lbc custom_sp ofit o text = None /\ wrap cw alnum lbc custom_sp ofit o' text = None) \/
  (exists ls ls',
     wrap cw alnum lbc custom_sp ofit o text = Some ls /\
     wrap cw alnum lbc custom_sp ofit o' text = Some ls' /\
     length ls = length ls' /\
     forall i d d', (i < length ls)%nat ->
       exists rest,
         l_text (nth i ls d) = (if (i =? 0)%nat then o_ii o else o_si o) ++ rest /\
         l_text (nth i ls' d') = (if (i =? 0)%nat then o_ii o' else o_si o') ++ rest /\
         l_cow (nth i ls d) = l_cow (nth i ls' d')).
Proof. intros. apply wrap_indent_indep. assumption. Qed.

Print Assumptions C08_rest_independent_of_indent_characters.
