(* C09 — existing line breaks are kept and paragraphs wrap independently; fill = join;
   LF/CRLF equivariance.  [ofit] is the optimal-fit oracle; the two hypotheses about it
   (it returns at least one line; it does not invent words) follow from C06 for the
   oracle (ofit_nonempty_of_concat, ofit_pen_of_concat in Proofs/Paragraphs.v). *)
From TW Require Import Wrap.
From TW Require Import Paragraphs.

Section C09.
Variable cw : char -> N.
Variable alnum : char -> bool.
Variable lbc : str -> list N.
Variable custom_sp : str -> list N.
Variable ofit : penalties -> list word -> list N -> option (list (list word)).
Hypothesis ofit_nonempty : forall p ws lws g, ofit p ws lws = Some g -> g <> [].
Notation W := (wrap cw alnum lbc custom_sp ofit).
Notation F := (fill cw alnum lbc custom_sp ofit).

(* wrap(a + ending + b) is wrap(a) followed by lines that depend on b only *)
Theorem C09_prefix : forall o a b la l,
  W o a = Some la -> W o (a ++ le_str (o_le o) ++ b) = Some l -> exists lb, l = la ++ lb.
Proof. exact (wrap_app_prefix cw alnum lbc custom_sp ofit ofit_nonempty). Qed.

Theorem C09_tail_independent : forall o a a' b la la' l l',
  W o a = Some la -> W o a' = Some la' ->
  W o (a ++ le_str (o_le o) ++ b) = Some l -> W o (a' ++ le_str (o_le o) ++ b) = Some l' ->
  map l_text (skipn (length la) l) = map l_text (skipn (length la') l').
Proof. exact (wrap_app_tail_texts cw alnum lbc custom_sp ofit ofit_nonempty). Qed.

Theorem C09_empty_indents : forall o a b la l,
  o_ii o = [] /\ o_si o = [] ->
  W o a = Some la -> W o (a ++ le_str (o_le o) ++ b) = Some l ->
  exists lb, W o b = Some lb /\
             map l_text (skipn (length la) l) = map l_text lb /\
             map l_text l = map l_text la ++ map l_text lb.
Proof. exact (wrap_app_empty_indent_texts cw alnum lbc custom_sp ofit ofit_nonempty). Qed.

(* never fewer output lines than input lines *)
Theorem C09_line_count : forall o t l,
  W o t = Some l -> (length (split_le (o_le o) t) <= length l)%nat.
Proof. exact (wrap_length_ge cw alnum lbc custom_sp ofit ofit_nonempty). Qed.

(* fill = wrap's lines joined by the line ending, shortcut included *)
Theorem C09_fill_is_join : forall o t,
  F o t = match W o t with
          | Some ls => Some (join (le_str (o_le o)) (map l_text ls))
          | None => None
          end.
Proof. exact (fill_is_join cw alnum lbc custom_sp ofit). Qed.

(* switching text and option from LF to CRLF changes the output only by that substitution *)
Hypothesis ofit_pen : forall p ws lws g,
  ofit p ws lws = Some g -> Forall pen_ok ws -> Forall (Forall pen_ok) g.
Theorem C09_crlf_equivariant : forall o t,
  o_le o = LE_LF -> lf_free (o_ii o) -> lf_free (o_si o) ->
  F (set_le o LE_CRLF) (crlf_subst t) = option_map crlf_subst (F o t).
Proof. exact (fill_crlf_equivariant cw alnum lbc custom_sp ofit ofit_pen). Qed.
End C09.

Print Assumptions C09_prefix.
Print Assumptions C09_tail_independent.
Print Assumptions C09_empty_indents.
Print Assumptions C09_line_count.
Print Assumptions C09_fill_is_join.
Print Assumptions C09_crlf_equivariant.
