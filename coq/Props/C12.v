(* C12 — splitting and force-breaking words is lossless, bounded and escape-safe. *)
From TW Require Import Splitters Word.
From TW Require Import SplitBreak.

(* split_words: for split points that are strictly increasing proper character
   boundaries (valid_pts), the pieces concatenate to the word, are cut exactly at the
   points (cumulative byte lengths), inner pieces have no whitespace and a "-" penalty
   exactly when the text before the cut does not end in '-', the last piece carries the
   word's whitespace and penalty, cached widths are display widths *)
Theorem C12_split : forall (cw : char -> N) wd pts,
  valid_pts (w_word wd) pts ->
  exists ps, sw_loop cw wd pts 0 = Some ps /\
    concat (map w_word ps) = w_word wd /\
    cum 0 (map w_word ps) = pts ++ [blen (w_word wd)] /\
    length ps = S (length pts) /\
    (w_word wd <> [] -> Forall (fun p => w_word p <> []) ps) /\
    (forall ps1 p ps2, ps = ps1 ++ p :: ps2 -> ps2 <> [] ->
       w_ws p = [] /\
       w_pen p = if ends_with (concat (map w_word (ps1 ++ [p]))) [HY] then [] else [HY]) /\
    (forall init l, ps = init ++ [l] -> w_ws l = w_ws wd /\ w_pen l = w_pen wd) /\
    Forall (fun p => w_width p = dw cw (w_word p)) ps.
Proof. exact sw_loop_valid. Qed.

(* the hyphen splitter's points: directly after each '-' with alphanumeric neighbours;
   they are valid, so splitting with it never fails *)
Theorem C12_hyphen_points : forall (alnum : char -> bool) w o,
  In o (hyphen_points alnum w) <->
  exists pre c1 c2 post, w = pre ++ c1 :: HY :: c2 :: post /\ alnum c1 = true /\ alnum c2 = true /\
                         o = blen (pre ++ [c1; HY]).
Proof. exact hyphen_points_spec. Qed.

Theorem C12_hyphen_points_valid : forall (alnum : char -> bool) w,
  valid_pts w (hyphen_points alnum w).
Proof. exact hyphen_points_valid. Qed.

(* force-breaking *)
Theorem C12_break_lossless : forall (cw : char -> N) lim wd,
  concat (map w_word (break_apart cw lim wd)) = w_word wd /\
  Forall (fun p => w_word p <> []) (break_apart cw lim wd) /\
  (forall init l, break_apart cw lim wd = init ++ [l] ->
     Forall (fun p => w_ws p = [] /\ w_pen p = []) init /\ w_ws l = w_ws wd /\ w_pen l = w_pen wd).
Proof.
  intros cw lim wd. split; [apply break_apart_concat|]. split; [apply break_apart_nonempty|].
  intros init l H. exact (break_apart_ws_pen cw lim wd init l H).
Qed.

Theorem C12_break_bounded : forall (cw : char -> N) lim wd,
  Forall (fun p => (w_width p <= lim \/ nzv cw (w_word p) = 1%nat) /\ w_width p = dw cw (w_word p))
         (break_apart cw lim wd).
Proof.
  intros cw lim wd. pose proof (break_apart_bound cw lim wd) as H1.
  pose proof (break_apart_width cw lim wd) as H2.
  rewrite Forall_forall in *. intros p Hp. split; auto.
Qed.

Theorem C12_break_maximal : forall (cw : char -> N) lim wd l1 p q l2,
  break_apart cw lim wd = l1 ++ p :: q :: l2 ->
  0 < w_width p /\
  exists c r, w_word q = c :: r /\ c <> ESC /\ hd_error (strip (w_word q)) = Some c /\
              lim < w_width p + cw c.
Proof. exact break_apart_maximal. Qed.

Theorem C12_break_escape_safe : forall (cw : char -> N) lim wd ps1 ps2,
  break_apart cw lim wd = ps1 ++ ps2 -> ps2 <> [] ->
  final_state Normal (concat (map w_word ps1)) = Normal.
Proof. exact break_apart_no_cut_in_escape. Qed.

Theorem C12_small_words_unchanged : forall (cw : char -> N) lim wd,
  w_width wd <= lim -> break_words cw lim [wd] = [wd].
Proof. exact break_words_small. Qed.

Print Assumptions C12_split.
Print Assumptions C12_hyphen_points.
Print Assumptions C12_hyphen_points_valid.
Print Assumptions C12_break_lossless.
Print Assumptions C12_break_bounded.
Print Assumptions C12_break_maximal.
Print Assumptions C12_break_escape_safe.
Print Assumptions C12_small_words_unchanged.
