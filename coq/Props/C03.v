(* C03 — optimal-fit returns a minimum-cost arrangement under the documented penalties.
   Exact integer arithmetic (NumZ).  An arrangement is a chain of ranges
   0 = s0 < e0 = s1 < ... = n ([chain]); [arrangement_cost] is the documented cost
   (per-line penalty, squared gap except on the last line, linear overflow penalty,
   short-last-line penalty, hyphen penalty), accumulated exactly as the closure handed
   to smawk accumulates it.
   What is NOT proved: that smawk::online_column_minima returns true column minima on
   this matrix ([ColMin]).  C03_optimal_given_column_minima is conditional on it;
   C03_reference_optimal shows the hypothesis is satisfiable (the reference search
   meets it) and that the value is the minimum over ALL arrangements. *)
From Coq Require Import ZArith Lia.
From TW Require Import OptFit Wrap.
From TW Require Import Partition Bellman VsFirstFit.

(* the dynamic program's value is a lower bound for every arrangement (<= 2 line widths) *)
Theorem C03_lower_bound : forall P (fs : list (frag NumZ)) (lws : list Z),
  (length lws <= 2)%nat -> forall rs, chain (length fs) 0 rs ->
  (opt_cost NumZ P fs lws <= arrangement_cost NumZ P fs lws rs)%Z.
Proof. exact bellman_lower. Qed.

(* whatever column minima the oracle returns, if they ARE column minima of the online
   matrix, back-tracking yields an arrangement whose cost is that minimum *)
Theorem C03_optimal_given_column_minima : forall P (fs : list (frag NumZ)) (lws : list Z) minima,
  (length lws <= 2)%nat -> (1 <= length fs)%nat -> ColMin P fs lws minima ->
  exists rs, backtrack NumZ (S (length fs)) minima (length fs) [] = Some rs /\
             chain (length fs) 0 rs /\
             arrangement_cost NumZ P fs lws rs = opt_cost NumZ P fs lws /\
             forall rs', chain (length fs) 0 rs' ->
                (arrangement_cost NumZ P fs lws rs <= arrangement_cost NumZ P fs lws rs')%Z.
Proof.
  intros P fs lws minima Hl Hn Hc.
  destruct (colmin_optimal P fs lws minima Hl Hn Hc) as [rs [H1 [H2 H3]]].
  exists rs. repeat split; auto. intros rs' Hrs'. rewrite H3. apply bellman_lower; assumption.
Qed.

Theorem C03_reference_optimal : forall (A : Type) (m : A -> frag NumZ) P (xs : list A) (lws : list Z),
  (length lws <= 2)%nat -> xs <> [] ->
  exists rs, optimal_fit m P xs lws = Some (map (fun '(a, b) => slice xs a b) rs) /\
             chain (length xs) 0 rs /\
             arrangement_cost NumZ P (map m xs) lws rs = opt_cost NumZ P (map m xs) lws /\
             forall rs', chain (length xs) 0 rs' ->
                (arrangement_cost NumZ P (map m xs) lws rs <= arrangement_cost NumZ P (map m xs) lws rs')%Z.
Proof. exact optimal_fit_minimal. Qed.

Theorem C03_column_minima_satisfiable : forall P (fs : list (frag NumZ)) (lws : list Z),
  ColMin P fs lws (dp_minima NumZ P fs lws).
Proof. exact dp_minima_ColMin. Qed.

(* hence its cost never exceeds that of the first-fit arrangement, for any penalties *)
Theorem C03_never_worse_than_first_fit : forall P (fs : list (frag NumZ)) (lws : list Z),
  (length lws <= 2)%nat -> fs <> [] ->
  (opt_cost NumZ P fs lws <=
   arrangement_cost NumZ P fs lws (ranges_of 0 (first_fit (fun f => f) fs lws)))%Z.
Proof. exact opt_le_first_fit. Qed.

(* the restriction to two line widths is needed: with three the recursion is not first-order *)
Theorem C03_two_widths_needed :
  ~ (forall P (fs : list (frag NumZ)) (lws : list (T NumZ)) rs, chain (length fs) 0 rs ->
       (opt_cost NumZ P fs lws <= arrangement_cost NumZ P fs lws rs)%Z).
Proof. exact bellman_lower_false_for_three_widths. Qed.

(* wrap level: the paragraph's words are handed to the algorithm with exactly two line
   widths, so (with the reference oracle) the groups are a minimum-cost arrangement *)
Theorem C03_wrap_level : forall P (ws : list word) (fwid sw : N),
  ws <> [] ->
  exists rs, run_alg ofit_dp (OptimalFit P) ws [fwid; sw] = Some (map (fun '(a, b) => slice ws a b) rs) /\
             chain (length ws) 0 rs /\
             forall rs', chain (length ws) 0 rs' ->
               (arrangement_cost NumZ P (map word_frag ws) (map Z.of_N [fwid; sw]) rs
                <= arrangement_cost NumZ P (map word_frag ws) (map Z.of_N [fwid; sw]) rs')%Z.
Proof.
  intros P ws fwid sw Hne. cbn [run_alg]. unfold ofit_dp.
  destruct (optimal_fit_minimal word word_frag P ws (map Z.of_N [fwid; sw]) ltac:(cbn; lia) Hne)
    as [rs [H1 [H2 [_ H4]]]].
  exists rs. repeat split; assumption.
Qed.

(* the per-case check: the boolean [optimal_b] that the L2 layer runs on the arrangement
   the implementation returned (integer-valued cases) accepts exactly the minimum-cost
   arrangements, so a case that passes it IS an instance of the property *)
From TW Require Import OptB.
Theorem C03_checker_sound : forall P (fs : list (frag NumZ)) (lws : list Z) rs,
  optimal_b P fs lws rs = true ->
  chain (length fs) 0 rs /\
  forall rs', chain (length fs) 0 rs' ->
    (arrangement_cost NumZ P fs lws rs <= arrangement_cost NumZ P fs lws rs')%Z.
Proof. exact optimal_b_sound. Qed.

Theorem C03_checker_complete : forall P (fs : list (frag NumZ)) (lws : list Z) rs,
  (length lws <= 2)%nat -> fs <> [] -> chain (length fs) 0 rs ->
  (forall rs', chain (length fs) 0 rs' ->
     (arrangement_cost NumZ P fs lws rs <= arrangement_cost NumZ P fs lws rs')%Z) ->
  optimal_b P fs lws rs = true.
Proof. exact optimal_b_complete. Qed.

(* where the integer model is the floating-point computation: default penalties, widths of
   at most 2^16 columns, at most 4096 fragments: every stored cost is an integer below
   2^53, the range on which double arithmetic on integers is exact *)
From TW Require Import Smawk CostBound ExactDomain.
Theorem C03_integer_model_exact_range : forall eqT (fs : list (frag NumZ)) (lws : list Z),
  Forall (frag_ok (2^16)) fs -> Forall (fun lw => (0 <= lw <= 2^16)%Z) lws ->
  (length fs <= 4096)%nat ->
  forall minima, smawk_minima NumZ eqT default_penalties fs lws = Some minima ->
  forall j i c, nth_error minima j = Some (i, c) -> (0 <= c < 2^53)%Z.
Proof. exact exact_domain. Qed.

(* tie to the source text: the documented default penalties are the literals of
   Penalties::new() in /repo/src/wrap_algorithms/optimal_fit.rs on this run *)
From TW Require Import SrcConsts SrcConstsFacts.
Theorem C03_source_constants :
  src_default_penalties =
  [p_nline default_penalties; p_overflow default_penalties; p_frac default_penalties;
   p_short default_penalties; p_hyphen default_penalties].
Proof. exact src_default_penalties_ok. Qed.
(* at the level of wrap and fill themselves, reference oracle (found missing by an audit: C03_wrap_level above is about run_alg on an arbitrary word list): for every paragraph k the texts of wrap's lines are rendered from groups that are slices along a chain of minimum arrangement_cost over ALL chains, for that paragraph's fragments and the widths line_widths cw o (k =? 0); fill is the join of those lines.  With an arbitrary partition oracle this is false (WrapLevel.wsl_texts_needs_reference_oracle): the byte-length shortcut returns one line whatever the oracle would say. *)
From TW Require Import WrapLevel.
Theorem C03_wrap_level_paragraphs :
  forall (cw : Chars.char -> BinNums.N) (alnum : Chars.char -> bool)
           (lbc custom_sp : Chars.str -> list BinNums.N),
         (forall c : Chars.char, BinNat.N.le (cw c) (Chars.utf8_len c)) ->
         forall (P : OptFit.penalties) (o : Wrap.options) (text : Chars.str),
         Pipeline.SplitterOK custom_sp ->
         Wrap.o_alg o = Wrap.OptimalFit P ->
         exists (ls : list Wrap.oline) (pls : list (list Wrap.oline)),
           Wrap.wrap cw alnum lbc custom_sp Wrap.ofit_dp o text = Some ls /\
           Wrap.fill cw alnum lbc custom_sp Wrap.ofit_dp o text =
           Some (Chars.join (Wrap.le_str (Wrap.o_le o)) (List.map Wrap.l_text ls)) /\
           ls = List.concat pls /\
           length pls = length (Wrap.split_le (Wrap.o_le o) text) /\
           (forall (k : nat) (p : Chars.str),
            List.nth_error (Wrap.split_le (Wrap.o_le o) text) k = Some p ->
            Fits.TrimOK cw alnum lbc custom_sp o (PeanoNat.Nat.eqb k 0) p ->
            exists (bws : list Word.word) (groups : list (list Word.word)) (pl : list Wrap.oline),
              List.nth_error pls k = Some pl /\
              option_map (List.map (Wrap.shift_cow (para_offset o text k)))
                (Wrap.wrap_single_line cw alnum lbc custom_sp Wrap.ofit_dp o (PeanoNat.Nat.eqb k 0) p) =
              Some pl /\
              Pipeline.pipeline_words cw alnum lbc custom_sp o (PeanoNat.Nat.eqb k 0) p = Some bws /\
              Pipeline.gtext bws = p /\
              Wrap.run_alg Wrap.ofit_dp (Wrap.OptimalFit P) bws
                (Pipeline.line_widths cw o (PeanoNat.Nat.eqb k 0)) = Some groups /\
              List.concat groups = bws /\
              List.map Wrap.l_text pl = List.map Wrap.l_text (group_lines o (PeanoNat.Nat.eqb k 0) bws groups) /\
              (bws <> nil ->
               exists rs : list (nat * nat),
                 groups = List.map (fun '(a, b) => OptFit.slice bws a b) rs /\
                 Partition.chain (length bws) 0 rs /\
                 (forall rs' : list (nat * nat),
                  Partition.chain (length bws) 0 rs' ->
                  BinInt.Z.le
                    (OptFit.arrangement_cost Num.NumZ P (List.map Wrap.word_frag bws)
                       (List.map BinInt.Z.of_N (Pipeline.line_widths cw o (PeanoNat.Nat.eqb k 0))) rs)
                    (OptFit.arrangement_cost Num.NumZ P (List.map Wrap.word_frag bws)
                       (List.map BinInt.Z.of_N (Pipeline.line_widths cw o (PeanoNat.Nat.eqb k 0))) rs')))).
Proof. exact (@wrap_optimal_fit_groups). Qed.

Print Assumptions C03_wrap_level_paragraphs.
Print Assumptions C03_source_constants.

Print Assumptions C03_lower_bound.
Print Assumptions C03_integer_model_exact_range.
Print Assumptions C03_checker_sound.
Print Assumptions C03_checker_complete.
Print Assumptions C03_optimal_given_column_minima.
Print Assumptions C03_reference_optimal.
Print Assumptions C03_column_minima_satisfiable.
Print Assumptions C03_never_worse_than_first_fit.
Print Assumptions C03_two_widths_needed.
Print Assumptions C03_wrap_level.
