(* C01 — wrapping preserves the text: lines are in-order slices of the input.
   Holds for every optimal-fit oracle that returns an ordered partition (OfitOK — proved
   for the reference search and for the executable model of the smawk crate) and every custom splitter that
   returns strictly increasing proper character boundaries (SplitterOK — proved for the
   harness's custom splitter); both built-in splitters satisfy it by C12.

   ParaSpec o first p pl : either p = [] and pl is the single line carrying the indent,
   or p = concat (body_i ++ gap_i) for segments with gap_i all spaces and
   pen_i ∈ {[], "-"}, and line i of pl is  indent_i ++ body_i ++ pen_i, Borrowed at the
   byte offset of body_i in p when indent_i and pen_i are empty, Owned otherwise; with the
   ASCII separator no body ends in a space.  For the Unicode separator a body can end in
   a space only through a force-broken or custom-split word containing one:
   C01_body_ends_in_space_only_if below, for any oracle that answers with character
   boundaries (OracleOK) and never breaks between two spaces (UAX #14 LB7; asserted by the
   harness on every generated case); the examples in Proofs/TrailingSpace.v show that each
   of the three escape routes (break_words, custom splitter, an oracle breaking between
   spaces) is real. *)
From TW Require Import Wrap Custom WrapSmawk.
From TW Require Import Paragraphs Pipeline SmawkShape.

(* text level: the text is its paragraphs joined by the line ending; the lines are the
   paragraphs' lines in order; paragraph k sits at byte offset blen pre and its lines are
   ParaSpec lines shifted by that offset: nothing except gap spaces and line-ending
   sequences is lost, nothing is duplicated, reordered or invented *)
Theorem C01_wrap : forall cw alnum lbc custom_sp ofit o text,
  OfitOK ofit -> SplitterOK custom_sp ->
  exists ls pls,
    wrap cw alnum lbc custom_sp ofit o text = Some ls /\
    text = join (le_str (o_le o)) (split_le (o_le o) text) /\
    ls = concat pls /\ length pls = length (split_le (o_le o) text) /\
    forall k p, nth_error (split_le (o_le o) text) k = Some p ->
      exists pre post pl,
        text = pre ++ p ++ post /\
        blen pre = paras_blen (o_le o) (firstn k (split_le (o_le o) text)) /\
        ParaSpec o (k =? 0)%nat p pl /\
        nth_error pls k = Some (map (shift_cow (blen pre)) pl).
Proof. exact wrap_paragraphs. Qed.

(* one paragraph: segment i yields exactly this line, at exactly this place *)
Theorem C01_line_of_segment : forall o first (l1 : list seg) s l2,
  let segs := l1 ++ s :: l2 in
  let i := length l1 in
  let pre := concat (map seg_text l1) in
  concat (map seg_text segs) = pre ++ s_body s ++ s_gap s ++ concat (map seg_text l2) /\
  nth_error (seg_lines o first segs 0) i =
    Some (mkLine (nth_indent o first i ++ s_body s ++ s_pen s)
                 (if nonempty (nth_indent o first i) || nonempty (s_pen s) then Owned
                  else Borrowed (blen pre))).
Proof. exact seg_lines_line. Qed.

(* the hypotheses are met by the reference oracle and the harness's custom splitter *)
Theorem C01_hypotheses_met : OfitOK ofit_dp /\ OfitOK ofit_smawk /\ SplitterOK custom3.
Proof. split; [exact ofit_dp_ok|split; [exact ofit_smawk_ok|exact custom3_splitter_ok]]. Qed.

(* bodies are the [body g] of the groups the algorithm forms from the pipeline's fragments
   (Pipeline.slow_path_groups); for ANY grouping of those fragments: *)
From TW Require Import Lossless TrailingSpace.
Theorem C01_body_ends_in_space_only_if : forall cw alnum lbc custom_sp o first line bws groups g,
  SplitterOK custom_sp ->
  (o_sep o = SepUnicode -> OracleOK (strip line) (lbc (strip line)) /\ NoBreakBetweenSpaces (strip line) (lbc (strip line))) ->
  pipeline_words cw alnum lbc custom_sp o first line = Some bws ->
  concat groups = bws -> In g groups -> ~ no_trailing_sp (body g) ->
  o_sep o = SepUnicode /\ (o_bw o = true \/ o_spl o = SplCustom).
Proof. exact body_ends_in_space_only_if. Qed.

(* ... and for the groups the slow path itself renders as lines (the link between the
   theorem above and the lines of wrap: Pipeline.slow_path_spec) *)
Theorem C01_line_body_ends_in_space_only_if : forall cw alnum lbc custom_sp ofit o first line,
  OfitOK ofit -> SplitterOK custom_sp ->
  (o_sep o = SepUnicode -> OracleOK (strip line) (lbc (strip line)) /\ NoBreakBetweenSpaces (strip line) (lbc (strip line))) ->
  exists bws ls,
    pipeline_words cw alnum lbc custom_sp o first line = Some bws /\
    slow_path cw alnum lbc custom_sp ofit o first line = Some ls /\
    ((bws = [] /\ ls = [indent_line o first]) \/
     (exists groups, concat groups = bws /\ ls = lines_of o first groups 0 /\
        forall g, In g groups -> ~ no_trailing_sp (body g) ->
          o_sep o = SepUnicode /\ (o_bw o = true \/ o_spl o = SplCustom))).
Proof.
  intros cw alnum lbc custom_sp ofit o first line HO HS Horacle.
  destruct (slow_path_spec cw alnum lbc custom_sp ofit o first line HO HS) as [bws [ls [E1 [_ [E3 H]]]]].
  exists bws, ls. split; [exact E1|]. split; [exact E3|].
  destruct H as [H|[groups [G1 [_ [_ G4]]]]]; [left; exact H|].
  right. exists groups. split; [exact G1|]. split; [exact G4|].
  intros g Hg Hn.
  exact (body_ends_in_space_only_if cw alnum lbc custom_sp o first line bws groups g HS Horacle E1 G1 Hg Hn).
Qed.

(* the clause as the property words it, for the built-in splitters (audit: the theorem above concludes option flags only): if a body ends in a space then the separator is Unicode, break_words is on, and the last fragment of the line is a NON-LAST piece of break_apart applied to a word w of the paragraph that is wider than the break limit (it had to be cut) and contains a space; the piece's own text ends in that space and carries no whitespace or penalty *)
From TW Require Import CutSpace.
Theorem C01_body_ends_in_space_cut :
  forall (cw : Chars.char -> BinNums.N) (alnum : Chars.char -> bool)
           (lbc custom_sp : Chars.str -> list BinNums.N) (o : Wrap.options) (first : bool) 
           (line : Chars.str) (bws : list Word.word) (groups : list (list Word.word)) 
           (g : list Word.word),
         Pipeline.SplitterOK custom_sp ->
         (Wrap.o_sep o = Wrap.SepUnicode ->
          Lossless.OracleOK (Esc.strip line) (lbc (Esc.strip line)) /\
          TrailingSpace.NoBreakBetweenSpaces (Esc.strip line) (lbc (Esc.strip line))) ->
         Wrap.o_spl o <> Wrap.SplCustom ->
         Pipeline.pipeline_words cw alnum lbc custom_sp o first line = Some bws ->
         List.concat groups = bws ->
         List.In g groups ->
         ~ Pipeline.no_trailing_sp (Pipeline.body g) ->
         Wrap.o_sep o = Wrap.SepUnicode /\
         Wrap.o_bw o = true /\
         (exists sws : list Word.word,
            Splitters.split_words cw (Wrap.split_points alnum custom_sp (Wrap.o_spl o))
              (Wrap.find_words cw lbc (Wrap.o_sep o) line) = Some sws /\
            (let lim := BinNat.N.sub (Wrap.o_width o) (Esc.dw cw (Wrap.o_si o)) in
             exists (init : list Word.word) (x w : Word.word) (k : nat),
               g = (init ++ x :: nil)%list /\
               List.In w sws /\
               List.nth_error (Word.break_apart cw lim w) k = Some x /\
               (S k < length (Word.break_apart cw lim w))%nat /\
               BinNat.N.lt lim (Word.w_width w) /\
               Word.w_width w = Esc.dw cw (Word.w_word w) /\
               List.In Chars.SP (Word.w_word w) /\
               TrailingSpace.ends_with_sp (Word.w_word x) /\ Word.w_ws x = nil /\ Word.w_pen x = nil)).
Proof. exact (@body_ends_in_space_cut). Qed.

Print Assumptions C01_body_ends_in_space_cut.
Print Assumptions C01_line_body_ends_in_space_only_if.
Print Assumptions C01_body_ends_in_space_only_if.
Print Assumptions C01_wrap.
Print Assumptions C01_line_of_segment.
Print Assumptions C01_hypotheses_met.
