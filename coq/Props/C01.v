(* C01 — wrapping preserves the text: lines are in-order slices of the input.
   Stage theorems (the assembled statement about wrap's lines is in Proofs/Pipeline.v
   and is added here when it is complete): the word list handed to the line-breaking
   algorithm spells the paragraph exactly, stage by stage, and the algorithm only groups
   it. *)
From TW Require Import Wrap.
From TW Require Import Lossless SplitBreak Partition.

(* word finding: concatenating word+whitespace reproduces the paragraph (both separators) *)
Theorem C01_find_words_lossless : forall cw lbc sep line,
  concat (map (fun w => w_word w ++ w_ws w) (find_words cw lbc sep line)) = line.
Proof.
  intros cw lbc [|] line; cbn [find_words].
  - exact (proj1 (ascii_lossless cw line)).
  - exact (proj1 (unicode_lossless cw lbc line)).
Qed.

(* splitting keeps word text and whitespace (split points below the word's length) *)
Theorem C01_split_words_lossless : forall (cw : char -> N) sp ws ps,
  (forall w, In w ws -> Forall (fun o => o < blen (w_word w)) (sp (w_word w))) ->
  split_words cw sp ws = Some ps ->
  concat (map (fun w => w_word w ++ w_ws w) ps) = concat (map (fun w => w_word w ++ w_ws w) ws).
Proof. exact split_words_concat. Qed.

(* force-breaking keeps the word text; whitespace and penalty stay on the last piece *)
Theorem C01_break_apart_lossless : forall (cw : char -> N) lim wd,
  concat (map w_word (break_apart cw lim wd)) = w_word wd /\
  (forall init l, break_apart cw lim wd = init ++ [l] ->
     Forall (fun p => w_ws p = [] /\ w_pen p = []) init /\ w_ws l = w_ws wd /\ w_pen l = w_pen wd).
Proof. intros. split; [apply break_apart_concat|apply break_apart_ws_pen]. Qed.

(* the algorithm only groups the words, in order *)
Theorem C01_first_fit_partition : forall (ws : list word) lws,
  concat (first_fit word_frag ws lws) = ws.
Proof. intros. apply first_fit_concat. Qed.

Print Assumptions C01_find_words_lossless.
Print Assumptions C01_split_words_lossless.
Print Assumptions C01_break_apart_lossless.
Print Assumptions C01_first_fit_partition.
