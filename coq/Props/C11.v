(* C11 — word finding is lossless and breaks exactly at the specified opportunities. *)
From TW Require Import Separators.
From TW Require Import Lossless.

(* Lossless cw line ws :=  concat (word ++ whitespace) = line  /\  every word: whitespace
   all spaces, word does not end in a space, no penalty, cached width = display width *)
Theorem C11_ascii_lossless : forall (cw : char -> N) line,
  Lossless cw line (find_words_ascii cw line).
Proof. exact ascii_lossless. Qed.

(* for ANY answer of the unicode-linebreak oracle *)
Theorem C11_unicode_lossless : forall (cw : char -> N) (lbc : str -> list N) line,
  Lossless cw line (find_words_unicode cw lbc line).
Proof. exact unicode_lossless. Qed.

(* ASCII: a word starts at p (other than the first) iff a space is followed by a non-space *)
Theorem C11_ascii_boundaries : forall (cw : char -> N) line p,
  In p (starts (find_words_ascii cw line)) <->
  (0 < p < length line)%nat /\ nth (p - 1) line 0 = SP /\ nth p line SP <> SP.
Proof. exact ascii_boundaries. Qed.

(* Unicode: under what unicode-linebreak guarantees about its answer (OracleOK: strictly
   increasing char boundaries > 0, the last one the end of text), the word starts are the
   kept opportunities (not at end of text, not after '-' or soft hyphen) ... *)
Theorem C11_unicode_boundaries : forall (cw : char -> N) (lbc : str -> list N) line,
  OracleOK (strip line) (lbc (strip line)) ->
  starts (find_words_unicode cw lbc line) =
  cut_positions (filter (keep_opportunity (strip line)) (lbc (strip line))) (idx_map line).
Proof. exact unicode_boundaries. Qed.

Theorem C11_kept_opportunities : forall s o,
  keep_opportunity s o = true <->
  o < blen s /\ forall pre c post, s = pre ++ [c] ++ post -> blen (pre ++ [c]) = o -> c <> HY /\ c <> SHY.
Proof. exact keep_opportunity_spec. Qed.

(* ... every one of them is found, and each is mapped to the FIRST top-level position of
   the original line whose stripped offset is the opportunity: no boundary falls inside
   an escape sequence, and a sequence directly before a break goes with the next word *)
Theorem C11_unicode_mapping : forall line opps,
  OracleOK (strip line) opps ->
  let kept := filter (keep_opportunity (strip line)) opps in
  let cuts := cut_positions kept (idx_map line) in
  length cuts = length kept /\
  Forall2 (fun p o =>
     final_state Normal (firstn p line) = Normal /\
     blen (strip (firstn p line)) = o /\
     forall p', (p' < p)%nat -> final_state Normal (firstn p' line) = Normal ->
                blen (strip (firstn p' line)) < o) cuts kept.
Proof.
  intros line opps H. split; [exact (proj1 (unicode_cuts_found line opps H))|exact (unicode_cuts_top line opps H)].
Qed.

(* tie to the source text: the soft hyphen of the opportunity filter is the literal SHY of
   /repo/src/word_separators.rs on this run *)
From TW Require Import SrcConsts SrcConstsFacts.
Theorem C11_source_constants : src_shy = SHY.
Proof. exact src_shy_ok. Qed.
Print Assumptions C11_source_constants.

Print Assumptions C11_ascii_lossless.
Print Assumptions C11_unicode_lossless.
Print Assumptions C11_ascii_boundaries.
Print Assumptions C11_unicode_boundaries.
Print Assumptions C11_kept_opportunities.
Print Assumptions C11_unicode_mapping.
