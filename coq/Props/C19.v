(* C19 — indent prefixes every line and preserves line structure. *)
From TW Require Import Indent.
From TW Require Import IndentFacts.

Theorem C19_spec : forall s p,
  indent s p =
  join [LF] (map (fun l => (if has_nonws l then p else trim_end p) ++ l) (split_terminator_lf s))
  ++ (if ends_with s [LF] then [LF] else []).
Proof. exact indent_spec. Qed.

Theorem C19_line_structure : forall s p, Forall (fun c => c <> LF) p ->
  split_terminator_lf (indent s p) =
    map (fun l => (if has_nonws l then p else trim_end p) ++ l) (split_terminator_lf s) /\
  ends_with (indent s p) [LF] = ends_with s [LF].
Proof. exact indent_lines_structure. Qed.

Theorem C19_empty_prefix : forall s, indent s [] = s.
Proof. exact indent_nil_prefix. Qed.

(* same number of line breaks (prefix without LF; AuditFacts.indent_count_lf_needs_lf_free_prefix) *)
From TW Require Import AuditFacts.
Theorem C19_line_breaks_preserved :
  forall (s : Chars.str) (p : list Chars.char),
         List.Forall (fun c : Chars.char => c <> Chars.LF) p ->
         List.count_occ BinNat.N.eq_dec (Indent.indent s p) Chars.LF =
         List.count_occ BinNat.N.eq_dec s Chars.LF.
Proof. exact (@indent_count_lf). Qed.

Print Assumptions C19_line_breaks_preserved.
Print Assumptions C19_spec.
Print Assumptions C19_line_structure.
Print Assumptions C19_empty_prefix.
