(* C14 — filling is idempotent.  Stage theorems (assembled statement pending): the two
   facts the second pass relies on — a force-broken piece is a fixed point of
   force-breaking, and words not wider than the limit pass through unchanged. *)
From TW Require Import Wrap.
From TW Require Import SplitBreak.

Theorem C14_broken_piece_is_fixed_point : forall (cw : char -> N) lim wd p,
  In p (break_apart cw lim wd) -> break_apart cw lim p = [p].
Proof. exact break_apart_idem. Qed.

Theorem C14_small_words_unchanged : forall (cw : char -> N) lim wd,
  w_width wd <= lim -> break_words cw lim [wd] = [wd].
Proof. exact break_words_small. Qed.

Print Assumptions C14_broken_piece_is_fixed_point.
Print Assumptions C14_small_words_unchanged.
