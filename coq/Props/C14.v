(* C14 — filling is idempotent.
   First-fit: empty indents, ASCII separator, built-in splitters (none / hyphen),
   break_words on or off, every width, either line ending, every text.
   Optimal-fit (reference oracle): additionally no line of the first result wider than the
   width; proved for ESC-free text, cw SP = 1 and a positive per-line penalty.
   The Unicode separator half: whether the second pass finds the same words in a line taken
   on its own is a fact about unicode-linebreak (how its answer on a line relates to its
   answer on the paragraph containing it) which an abstract oracle does not provide.  It is
   isolated as ONE computable, per-text hypothesis [refind_b] (every first-pass line does not
   end in a space and, taken alone, is found again as fragments that fit one line); the
   theorem C14_any_separator derives idempotence from it for both separators, and the
   extracted [refind_b] is evaluated on every generated case, so each case on which it
   answers true is an instance of the theorem.  For the ASCII separator [refind_b] is true
   for EVERY text (C14_check_always_true_for_ascii), so C14_first_fit is the special case;
   the examples in Proofs/IdemUnicode.v show oracles for which it is false and filling is
   not idempotent, i.e. the hypothesis is not removable. *)
From TW Require Import Wrap.
From TW Require Import Idempotent.

Theorem C14_first_fit : forall cw alnum lbc custom_sp ofit o,
  o_alg o = FirstFit -> o_ii o = [] -> o_si o = [] -> o_sep o = SepAscii -> o_spl o <> SplCustom ->
  forall t r, fill cw alnum lbc custom_sp ofit o t = Some r ->
              fill cw alnum lbc custom_sp ofit o r = Some r.
Proof. exact fill_idempotent. Qed.

Theorem C14_optimal_fit : forall (cw : char -> N) alnum lbc custom_sp o pen,
  cw SP = 1 -> o_alg o = OptimalFit pen -> 0 < p_nline pen ->
  o_ii o = [] -> o_si o = [] -> o_sep o = SepAscii -> o_spl o <> SplCustom ->
  forall t r, Forall (fun c => c <> ESC) t ->
    fill cw alnum lbc custom_sp ofit_dp o t = Some r ->
    (forall l, In l (split_le (o_le o) r) -> dw cw l <= o_width o) ->
    fill cw alnum lbc custom_sp ofit_dp o r = Some r.
Proof. exact fill_idempotent_optimal. Qed.

From TW Require Import Pipeline IdemUnicode.
Theorem C14_any_separator : forall cw alnum lbc custom_sp ofit o,
  o_alg o = FirstFit -> SplitterOK custom_sp -> EmptyIndents o -> o_spl o <> SplCustom ->
  forall t r,
    refind_b cw alnum lbc custom_sp o t = true ->
    fill cw alnum lbc custom_sp ofit o t = Some r ->
    fill cw alnum lbc custom_sp ofit o r = Some r.
Proof. exact fill_idem_refind. Qed.

(* what the boolean says, in both directions *)
Theorem C14_check_meaning : forall cw alnum lbc custom_sp o t,
  refind_b cw alnum lbc custom_sp o t = true <->
  RefindParas cw alnum lbc custom_sp o true (split_le (o_le o) t).
Proof. exact refind_b_spec. Qed.

Theorem C14_check_always_true_for_ascii : forall cw alnum lbc custom_sp o,
  SplitterOK custom_sp -> EmptyIndents o -> o_sep o = SepAscii -> o_spl o <> SplCustom ->
  forall t, refind_b cw alnum lbc custom_sp o t = true.
Proof. exact refind_b_ascii_builtin. Qed.

(* the optimal-fit clause for any separator (reference oracle): "whenever no line of the first
   result overflows the width", from the computable per-text hypothesis [refind_opt_b]
   (nothing is asked of empty or overflowing lines; a line shorter in bytes than the width
   must not end in a space; any other line must be re-found, alone, as fragments that end
   without whitespace and whose cached widths fit).  No hypothesis on the separator, on the
   oracle, or on escape sequences; for the ASCII separator and ESC-free text the check is
   always true (C14_optimal_check_always_true_for_ascii), so C14_optimal_fit is the special
   case; Proofs/IdemUnicodeOpt.v shows by examples that neither the check nor the
   no-overflow premise can be dropped. *)
From TW Require Import IdemUnicodeOpt.
Theorem C14_optimal_fit_any_separator : forall cw alnum lbc custom_sp o pen,
  cw SP = 1 -> o_alg o = OptimalFit pen -> 0 < p_nline pen ->
  SplitterOK custom_sp -> EmptyIndents o -> o_spl o <> SplCustom ->
  forall t r,
    refind_opt_b cw alnum lbc custom_sp o t = true ->
    fill cw alnum lbc custom_sp ofit_dp o t = Some r ->
    (forall l, In l (split_le (o_le o) r) -> dw cw l <= o_width o) ->
    fill cw alnum lbc custom_sp ofit_dp o r = Some r.
Proof. exact fill_idem_refind_opt. Qed.

Theorem C14_optimal_check_always_true_for_ascii : forall cw alnum lbc custom_sp o,
  cw SP = 1 -> SplitterOK custom_sp -> EmptyIndents o -> o_sep o = SepAscii -> o_spl o <> SplCustom ->
  forall t, Forall (fun c => c <> ESC) t -> refind_opt_b cw alnum lbc custom_sp o t = true.
Proof. exact refind_opt_b_ascii_builtin. Qed.

Print Assumptions C14_optimal_fit_any_separator.
Print Assumptions C14_optimal_check_always_true_for_ascii.
Print Assumptions C14_any_separator.
Print Assumptions C14_check_meaning.
Print Assumptions C14_check_always_true_for_ascii.
Print Assumptions C14_first_fit.
Print Assumptions C14_optimal_fit.
