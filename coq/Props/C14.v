(* C14 — filling is idempotent.
   First-fit: empty indents, ASCII separator, built-in splitters (none / hyphen),
   break_words on or off, every width, either line ending, every text.
   Optimal-fit (reference oracle): additionally no line of the first result wider than the
   width; proved for ESC-free text, cw SP = 1 and a positive per-line penalty.
   The Unicode separator half of the property is checked on the implementation only: a
   theorem would have to relate unicode-linebreak's answer on a line to its answer on the
   paragraph containing it, which the abstract oracle does not provide. *)
From TW Require Import Wrap.
From TW Require Import Idempotent.

Theorem C14_first_fit : forall cw alnum lbc custom_sp ofit o,
  o_alg o = FirstFit -> o_ii o = [] -> o_si o = [] -> o_sep o = SepAscii -> o_spl o <> SplCustom ->
  forall t r, fill cw alnum lbc custom_sp ofit o t = Some r ->
              fill cw alnum lbc custom_sp ofit o r = Some r.
Proof. exact fill_idempotent. Qed.

Theorem C14_optimal_fit : forall (cw : char -> N) alnum lbc custom_sp o pen,
  cw SP = 1 -> o_alg o = OptimalFit pen -> 0 < p_nline pen ->
  o_ii o = [] -> o_si o = [] -> o_sep o = SepAscii -> o_spl o <> SplCustom ->
  forall t r, Forall (fun c => c <> ESC) t ->
    fill cw alnum lbc custom_sp ofit_dp o t = Some r ->
    (forall l, In l (split_le (o_le o) r) -> dw cw l <= o_width o) ->
    fill cw alnum lbc custom_sp ofit_dp o r = Some r.
Proof. exact fill_idempotent_optimal. Qed.

Print Assumptions C14_first_fit.
Print Assumptions C14_optimal_fit.
