(* C14 — filling is idempotent.
   First-fit: empty indents, ASCII separator, built-in splitters (none / hyphen),
   break_words on or off, every width, either line ending, every text.
   Optimal-fit (reference oracle): additionally no line of the first result wider than the
   width; proved for ESC-free text, cw SP = 1 and a positive per-line penalty.
   The Unicode separator half: whether the second pass finds the same words in a line taken
   on its own is a fact about unicode-linebreak (how its answer on a line relates to its
   answer on the paragraph containing it) which an abstract oracle does not provide.  It is
   isolated as ONE computable, per-text hypothesis [refind_b] (every first-pass line does not
   end in a space and, taken alone, is found again as fragments that fit one line); the
   theorem C14_any_separator derives idempotence from it for both separators, and the
   extracted [refind_b] is evaluated on every generated case, so each case on which it
   answers true is an instance of the theorem.  For the ASCII separator [refind_b] is true
   for EVERY text (C14_check_always_true_for_ascii), so C14_first_fit is the special case;
   the examples in Proofs/IdemUnicode.v show oracles for which it is false and filling is
   not idempotent, i.e. the hypothesis is not removable. *)
From TW Require Import Wrap.
From TW Require Import Idempotent.

Theorem C14_first_fit : forall cw alnum lbc custom_sp ofit o,
  o_alg o = FirstFit -> o_ii o = [] -> o_si o = [] -> o_sep o = SepAscii -> o_spl o <> SplCustom ->
  forall t r, fill cw alnum lbc custom_sp ofit o t = Some r ->
              fill cw alnum lbc custom_sp ofit o r = Some r.
Proof. exact fill_idempotent. Qed.

Theorem C14_optimal_fit : forall (cw : char -> N) alnum lbc custom_sp o pen,
  cw SP = 1 -> o_alg o = OptimalFit pen -> 0 < p_nline pen ->
  o_ii o = [] -> o_si o = [] -> o_sep o = SepAscii -> o_spl o <> SplCustom ->
  forall t r, Forall (fun c => c <> ESC) t ->
    fill cw alnum lbc custom_sp ofit_dp o t = Some r ->
    (forall l, In l (split_le (o_le o) r) -> dw cw l <= o_width o) ->
    fill cw alnum lbc custom_sp ofit_dp o r = Some r.
Proof. exact fill_idempotent_optimal. Qed.

From TW Require Import Pipeline IdemUnicode.
Theorem C14_any_separator : forall cw alnum lbc custom_sp ofit o,
  o_alg o = FirstFit -> SplitterOK custom_sp -> EmptyIndents o -> o_spl o <> SplCustom ->
  forall t r,
    refind_b cw alnum lbc custom_sp o t = true ->
    fill cw alnum lbc custom_sp ofit o t = Some r ->
    fill cw alnum lbc custom_sp ofit o r = Some r.
Proof. exact fill_idem_refind. Qed.

(* what the boolean says, in both directions *)
Theorem C14_check_meaning : forall cw alnum lbc custom_sp o t,
  refind_b cw alnum lbc custom_sp o t = true <->
  RefindParas cw alnum lbc custom_sp o true (split_le (o_le o) t).
Proof. exact refind_b_spec. Qed.

Theorem C14_check_always_true_for_ascii : forall cw alnum lbc custom_sp o,
  SplitterOK custom_sp -> EmptyIndents o -> o_sep o = SepAscii -> o_spl o <> SplCustom ->
  forall t, refind_b cw alnum lbc custom_sp o t = true.
Proof. exact refind_b_ascii_builtin. Qed.

(* the optimal-fit clause for any separator (reference oracle): "whenever no line of the first
   result overflows the width", from the computable per-text hypothesis [refind_opt_b]
   (nothing is asked of empty or overflowing lines; a line shorter in bytes than the width
   must not end in a space; any other line must be re-found, alone, as fragments that end
   without whitespace and whose cached widths fit).  No hypothesis on the separator, on the
   oracle, or on escape sequences; for the ASCII separator and ESC-free text the check is
   always true (C14_optimal_check_always_true_for_ascii), so C14_optimal_fit is the special
   case; Proofs/IdemUnicodeOpt.v shows by examples that neither the check nor the
   no-overflow premise can be dropped. *)
From TW Require Import IdemUnicodeOpt.
Theorem C14_optimal_fit_any_separator : forall cw alnum lbc custom_sp o pen,
  cw SP = 1 -> o_alg o = OptimalFit pen -> 0 < p_nline pen ->
  SplitterOK custom_sp -> EmptyIndents o -> o_spl o <> SplCustom ->
  forall t r,
    refind_opt_b cw alnum lbc custom_sp o t = true ->
    fill cw alnum lbc custom_sp ofit_dp o t = Some r ->
    (forall l, In l (split_le (o_le o) r) -> dw cw l <= o_width o) ->
    fill cw alnum lbc custom_sp ofit_dp o r = Some r.
Proof. exact fill_idem_refind_opt. Qed.

Theorem C14_optimal_check_always_true_for_ascii : forall cw alnum lbc custom_sp o,
  cw SP = 1 -> SplitterOK custom_sp -> EmptyIndents o -> o_sep o = SepAscii -> o_spl o <> SplCustom ->
  forall t, Forall (fun c => c <> ESC) t -> refind_opt_b cw alnum lbc custom_sp o t = true.
Proof. exact refind_opt_b_ascii_builtin. Qed.

(* the hypothesis refind_b split into the property's own condition and a statement about the line-break oracle (audit: 'no word needs force-breaking' appeared in no theorem).  no_forced_b: every fragment, as found and split BEFORE break_words, fits the width on its own (so break_words is the identity).  local_b (o_nobreak o): with break_words switched off, every first-pass line, taken alone, is found again as exactly the fragments that were placed on it (last whitespace removed) and does not end in a space -- for the splitter 'none' a condition on the oracle's answers alone.  Together they give idempotence; IdemLocal's examples show that neither can be dropped from this form (a forced break of a word containing a space: ex_nobreak_needs_F; a non-local oracle: ex_local_fails_oracle) and that locality is stronger than refind_b (sufficient, not necessary). *)
From TW Require Import IdemLocal.
Theorem C14_from_locality_and_no_forced_break :
  forall (cw : Chars.char -> BinNums.N) (alnum : Chars.char -> bool)
           (lbc custom_sp : Chars.str -> list BinNums.N)
           (ofit : OptFit.penalties -> list Word.word -> list BinNums.N -> option (list (list Word.word)))
           (o : Wrap.options),
         Wrap.o_alg o = Wrap.FirstFit ->
         Pipeline.SplitterOK custom_sp ->
         Idempotent.EmptyIndents o ->
         Wrap.o_spl o <> Wrap.SplCustom ->
         forall t r : Chars.str,
         local_b cw alnum lbc custom_sp (o_nobreak o) t = true ->
         no_forced_b cw alnum lbc custom_sp o t = true ->
         Wrap.fill cw alnum lbc custom_sp ofit o t = Some r ->
         Wrap.fill cw alnum lbc custom_sp ofit o r = Some r.
Proof. exact (@fill_idem_local_nobreak). Qed.

Theorem C14_locality_implies_check :
  forall (cw : Chars.char -> BinNums.N) (alnum : Chars.char -> bool)
           (lbc custom_sp : Chars.str -> list BinNums.N) (o : Wrap.options) (t : Chars.str),
         Idempotent.EmptyIndents o ->
         local_b cw alnum lbc custom_sp o t = true -> IdemUnicode.refind_b cw alnum lbc custom_sp o t = true.
Proof. exact (@local_refind). Qed.

Print Assumptions C14_from_locality_and_no_forced_break.
Print Assumptions C14_locality_implies_check.
Print Assumptions C14_optimal_fit_any_separator.
Print Assumptions C14_optimal_check_always_true_for_ascii.
Print Assumptions C14_any_separator.
Print Assumptions C14_check_meaning.
Print Assumptions C14_check_always_true_for_ascii.
Print Assumptions C14_first_fit.
Print Assumptions C14_optimal_fit.
