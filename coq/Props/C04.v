(* C04 — public functions are total.  In the model a panic is the value [None] (slice
   out of range or off a character boundary, checked-arithmetic overflow, index out of
   range, no progress); functions whose model type has no [option] cannot panic in the
   model at all (display_width, find_words, break_words, indent, dedent, first_fit), so
   for them totality is the L1 correspondence plus the harness's catch_unwind/watchdog.
   Memory exhaustion, stack depth and wall-clock time are outside the model. *)
From Coq Require Import ZArith.
From TW Require Import Wrap Refill Columns.
From TW Require Import Custom WrapSmawk.
From TW Require Import Partition Bellman SplitBreak InplaceFacts UnfillFacts ColumnsFacts Pipeline SmawkShape CostBound.

Theorem C04_fill_inplace : forall (cw : char -> N) text w, exists t', fill_inplace cw text w = Some t'.
Proof. exact fill_inplace_some. Qed.

Theorem C04_unfill : forall (cw : char -> N) text, exists u, unfill cw text = Some u.
Proof. exact unfill_total. Qed.

(* splitting with the built-in splitters never slices off a boundary *)
Theorem C04_split_words : forall (alnum : char -> bool) (cw : char -> N) ws,
  (exists ps, split_words cw (hyphen_points alnum) ws = Some ps) /\
  (exists ps, split_words cw (fun _ => []) ws = Some ps).
Proof. intros. split; [apply split_words_hyphen_some|apply split_words_nosplit_some]. Qed.

(* optimal fit: for any Num (NaN and infinities included) the reference minima have the
   shape under which back-tracking terminates with in-range slices *)
Theorem C04_optimal_fit : forall (Nm : Num) (A : Type) (m : A -> frag Nm) P (xs : list A) lws,
  exists groups, optimal_fit m P xs lws = Some groups.
Proof.
  intros Nm A m P xs lws. unfold optimal_fit.
  destruct (optimal_fit_with_partition Nm A (dp_minima Nm P (map m xs) lws) xs) as [g [Hg _]].
  - pose proof (dp_minima_ok_gen Nm P (map m xs) lws) as H. rewrite map_length in H. exact H.
  - exists g. exact Hg.
Qed.

(* wrap_columns fails only for zero columns (documented), usize overflow of the gap
   arithmetic, or if wrap itself fails *)
Theorem C04_wrap_columns : forall cw alnum lbc custom_sp ofit o text columns left mid right,
  wrap_columns cw alnum lbc custom_sp ofit o text columns left mid right = None <->
  columns = 0 \/ USIZE_MAX < mid_w cw columns mid \/
  wrap cw alnum lbc custom_sp ofit (col_opts cw o columns left mid right) text = None.
Proof. intros. apply wrap_columns_none_iff_full. Qed.

(* wrap and fill never fail: every byte slice taken during line reassembly is in range and
   on character boundaries, for every text, width and option combination, for any
   optimal-fit oracle returning a partition and any valid custom splitter; in particular
   for the reference oracle and the harness's custom splitter *)
Theorem C04_wrap_fill : forall cw alnum lbc custom_sp ofit o text,
  OfitOK ofit -> SplitterOK custom_sp ->
  wrap cw alnum lbc custom_sp ofit o text <> None /\ fill cw alnum lbc custom_sp ofit o text <> None.
Proof. intros. split; [apply wrap_total|apply fill_total]; assumption. Qed.

Theorem C04_wrap_fill_reference : forall cw alnum lbc o text,
  wrap cw alnum lbc custom3 ofit_dp o text <> None /\ fill cw alnum lbc custom3 ofit_dp o text <> None.
Proof. intros. split; [apply wrap_total_reference|apply fill_total_reference]. Qed.

(* with the executable model of the smawk crate in place of the oracle: none of the crate's
   assert!s or index operations can fail (for every Num), so wrap and fill with the
   optimal-fit algorithm never fail either *)
Theorem C04_smawk_total : forall (Nm : Num) eqT P (fs : list (frag Nm)) lws,
  smawk_minima Nm eqT P fs lws <> None.
Proof. exact smawk_minima_total. Qed.

Theorem C04_wrap_fill_smawk : forall cw alnum lbc o text,
  wrap cw alnum lbc custom3 ofit_smawk o text <> None /\ fill cw alnum lbc custom3 ofit_smawk o text <> None.
Proof.
  intros. split; [apply wrap_total|apply fill_total]; try exact ofit_smawk_ok; exact custom3_splitter_ok.
Qed.

(* "optimal-fit never reports an overflow error when all widths and penalties are
   usize-valued": over exact integers every cost the algorithm stores is a non-negative
   integer below 2^300 — for the reference search and for the model of smawk.  (That the
   floating-point evaluation of the same expression then cannot reach +infinity, whose
   threshold is about 2^1024, is argued from the monotonicity of rounding; it is not proved
   here and is exercised by the `ofu` cases of the harness.) *)
Theorem C04_costs_far_below_f64_max : forall eqT P (fs : list (frag NumZ)) (lws : list Z),
  pen_ok (2^64) P -> Forall (frag_ok (2^64)) fs -> Forall (fun lw => (0 <= lw <= 2^64)%Z) lws ->
  (Z.of_nat (length fs) <= 2^64)%Z ->
  forall minima, smawk_minima NumZ eqT P fs lws = Some minima ->
  forall j i c, nth_error minima j = Some (i, c) -> (0 <= c < 2^300)%Z.
Proof. intros eqT P fs lws H1 H2 H3 H4 minima. exact (smawk_minima_usize P fs lws H1 H2 H3 H4 eqT minima). Qed.

(* refill never fails either (audit) *)
From TW Require Import AuditFacts.
Theorem C04_refill :
  forall (cw : Chars.char -> BinNums.N) (alnum : Chars.char -> bool)
           (lbc custom_sp : Chars.str -> list BinNums.N)
           (ofit : OptFit.penalties -> list Word.word -> list BinNums.N -> option (list (list Word.word)))
           (o : Wrap.options) (t : Chars.str),
         Pipeline.OfitOK ofit ->
         Pipeline.SplitterOK custom_sp ->
         exists r : Chars.str, Refill.refill cw alnum lbc custom_sp ofit o t = Some r.
Proof. exact (@refill_total). Qed.

Print Assumptions C04_refill.
Print Assumptions C04_costs_far_below_f64_max.
Print Assumptions C04_smawk_total.
Print Assumptions C04_wrap_fill_smawk.
Print Assumptions C04_wrap_fill.
Print Assumptions C04_wrap_fill_reference.
Print Assumptions C04_fill_inplace.
Print Assumptions C04_unfill.
Print Assumptions C04_split_words.
Print Assumptions C04_optimal_fit.
Print Assumptions C04_wrap_columns.
