(* The listed known findings, on the model: each class is inhabited by its witness and the
   property's conclusion fails there (all by vm_compute; the same witnesses are replayed on
   the implementation by the corpus of every run).  See DESIGN.md §5 and
   known-findings.txt. *)
From Coq Require Import ZArith.
From TW Require Import Wrap Custom Indent.
From TW Require Import WidthTableFacts SplitBreak Pipeline Fits Colour WidthBound.

(* D6 CutInsideEscape, C05: the hyperlink fits (4 columns at width 10), is not Additive, and
   is wrapped into two lines by first-fit and by optimal-fit *)
Theorem known_D6_C05 :
  (dw ex_cw d6_p = 4 /\ blen d6_p = 29) /\
  ~ Additive ex_cw ex_alnum pipe_lbc custom3 d6_o true d6_p /\
  slow_path ex_cw ex_alnum pipe_lbc custom3 ofit_dp d6_o true d6_p =
    Some [mkLine d6_line1 (Borrowed 0); mkLine [110; 107] (Borrowed 27)].
Proof. split; [exact d6_fits|]. split; [exact d6_not_additive|exact (proj1 d6_two_lines)]. Qed.

(* D9 PenaltyWithoutRoom, C05: "abc" + four combining accents with the custom splitter at
   width 3: display width 3, wrapped into "abc-" and the accents *)
Theorem known_D9_C05 :
  dw pen_cw pen_p = 3 /\
  slow_path pen_cw pipe_alnum pipe_lbc custom3 ofit_dp pen_o true pen_p =
    Some [mkLine [97;98;99;45] Owned; mkLine [769;769;769;769] (Borrowed 3)].
Proof. destruct slow_path_needs_PenOK as [H1 [_ H3]]. split; assumption. Qed.

(* D6, C13: the hyperlink is well-formed and attached but its URL's hyphen is inside the
   sequence (not HyOK); with the hyphen splitter the coloured text wraps to "li","nk", the
   plain text to "link" *)
Theorem known_D6_C13 :
  (WF col_link /\ Attached col_link /\ ~ HyOK (render col_link)) /\
  exists ls_r ls_p,
    wrap col_cw col_alnum col_lbc custom3 ofit_dp col_o3 (render col_link) = Some ls_r /\
    wrap col_cw col_alnum col_lbc custom3 ofit_dp col_o3 (plain col_link) = Some ls_p /\
    map (fun l => strip (l_text l)) ls_r = [[108; 105]; [110; 107]] /\
    map l_text ls_p = [[108; 105; 110; 107]].
Proof.
  split; [|exact col_link_finding].
  destruct col_link_hyps as [H1 [H2 [H3 _]]]. repeat split; assumption.
Qed.

(* D6, C02: fragments cut inside a sequence have cached widths 2,0,2, all go on one line of
   width 4, and that line is 6 columns wide *)
Theorem known_D6_C02 :
  wb_lines (wrap cw_simple pipe_alnum pipe_lbc custom3 ofit_dp wb_o7 wb_t7) = [wb_t7] /\
  dw cw_simple wb_t7 = 6 /\ o_width wb_o7 = 4.
Proof. destruct ex_cut_inside_escape as [H1 [H2 _]]. repeat split; assumption. Qed.

(* D7 IndentWiderThanWidth, C02 *)
Theorem known_D7_C02 :
  wb_lines (wrap cw_simple pipe_alnum pipe_lbc custom3 ofit_dp wb_o5 [97]) = [[32;32]; [97]].
Proof. exact ex_indent_too_wide. Qed.

(* D8 LineEndsInCR, C18 *)
Theorem known_D8_C18 : let s := [120; 13; 13; 10; 121] in dedent (dedent s) <> dedent s.
Proof. vm_compute. discriminate. Qed.

(* D6, C14: with the Unicode separator the tail of a cut OSC sequence is visible text on its
   own line and has a break opportunity of its own; filling twice differs.  [kf_lbc]
   tabulates unicode_linebreak::linebreaks on the three stripped strings involved. *)
Definition kf_text : str :=
  [27;93;56;59;59;104;116;116;112;58;47;47;109;121;45;115;105;116;101;46;99;111;109;27;92;20013;25991].
Definition kf_lbc (s : str) : list N :=
  if str_eqb s [20013;25991] then [3; 6]
  else if str_eqb s [115;105;116;101;46;99;111;109;20013] then [8; 11]
  else if str_eqb s [25991] then [3] else [].
Definition kf_o := mkOptions 0 LE_LF [] [] false FirstFit SepUnicode SplHyphen.
Theorem known_D6_C14 :
  exists r1 r2,
    fill ex_cw ex_alnum kf_lbc custom3 ofit_dp kf_o kf_text = Some r1 /\
    fill ex_cw ex_alnum kf_lbc custom3 ofit_dp kf_o r1 = Some r2 /\ r1 <> r2.
Proof.
  eexists. eexists. split; [vm_compute; reflexivity|]. split; [vm_compute; reflexivity|].
  vm_compute. discriminate.
Qed.

(* D10 LineEndsInsideEscape, C20: a wrapped line that ends inside an unterminated escape
   sequence ("aaaa b" followed by a lone ESC, one column of width 4 between "|" gaps): the
   padding that follows the lone ESC is swallowed by display_width, so the rows, built
   correctly cell by cell, do not have the same display width although no wrapped line is
   wider than the column.  First-fit, ASCII separator, break_words on, no splitter. *)
From TW Require Import Columns.
Definition d10_o := mkOptions 6 LE_LF [] [] true FirstFit SepAscii SplNone.
Definition d10_text : str := [97;97;97;97;32;98;27].
Theorem known_D10_C20 :
  exists r1 r2, wrap_columns ex_cw ex_alnum (fun _ => []) custom3 ofit_dp d10_o d10_text 1 [124] [124] [124] = Some [r1; r2] /\ dw ex_cw r1 = 6 /\ dw ex_cw r2 = 5.
Proof. eexists. eexists. split; [vm_compute; reflexivity|]. split; vm_compute; reflexivity. Qed.

Print Assumptions known_D10_C20.
Print Assumptions known_D6_C05.
Print Assumptions known_D9_C05.
Print Assumptions known_D6_C13.
Print Assumptions known_D6_C02.
Print Assumptions known_D7_C02.
Print Assumptions known_D8_C18.
Print Assumptions known_D6_C14.
