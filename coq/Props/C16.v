(* C16 — refill equals filling the original paragraph at the new width. *)
From TW Require Import Refill.
From TW Require Import UnfillFacts FillShape.

Section C16.
Variable cw : char -> N.
Variable alnum : char -> bool.
Variable lbc : str -> list N.
Variable custom_sp : str -> list N.
Variable ofit : penalties -> list word -> list N -> option (list (list word)).

Theorem C16_refill : forall o ii si le (groups : list (list str)) (ht : bool),
  pchars ii -> pchars si -> groups <> [] -> Forall group_ok groups ->
  refill cw alnum lbc custom_sp ofit o (filled ii si le groups ++ (if ht then le_str le else [])) =
  match fill cw alnum lbc custom_sp ofit
          (mkOptions (o_width o) (o_le o) ii (if many groups then si else [])
                     (o_bw o) (o_alg o) (o_sep o) (o_spl o))
          (join [SP] (concat groups)) with
  | None => None
  | Some r => Some (r ++ (if ht then le_str (o_le o) else []))
  end.
Proof. exact (refill_filled cw alnum lbc custom_sp ofit). Qed.

(* consequently the result does not depend on the width (the partition) at which the
   input had been filled, as long as both fillings have at least two lines *)
Theorem C16_independent_of_old_width : forall o ii si le le' (g1 g2 : list (list str)) (ht : bool),
  pchars ii -> pchars si -> Forall group_ok g1 -> Forall group_ok g2 ->
  many g1 = true -> many g2 = true -> concat g1 = concat g2 ->
  option_map (fun r => r) (refill cw alnum lbc custom_sp ofit o (filled ii si le g1 ++ (if ht then le_str le else []))) =
  refill cw alnum lbc custom_sp ofit o (filled ii si le' g2 ++ (if ht then le_str le' else [])).
Proof.
  intros o ii si le le' g1 g2 ht Hii Hsi H1 H2 M1 M2 Hc.
  assert (N1 : g1 <> []) by (destruct g1; [discriminate|discriminate]).
  assert (N2 : g2 <> []) by (destruct g2; [discriminate|discriminate]).
  rewrite (refill_filled cw alnum lbc custom_sp ofit o ii si le g1 ht Hii Hsi N1 H1).
  rewrite (refill_filled cw alnum lbc custom_sp ofit o ii si le' g2 ht Hii Hsi N2 H2).
  rewrite M1, M2, Hc.
  destruct (fill _ _ _ _ _ _ _); reflexivity.
Qed.

(* with fill itself: when the first filling has at least two lines,
   refill (fill o1 para ++ tail) o2 = fill (o2 with o1's indents) para ++ tail converted *)
Theorem C16_refill_of_fill : forall o (words : list str),
  o_bw o = false -> o_spl o = SplNone -> o_sep o = SepAscii -> Pipeline.OfitOK ofit ->
  Forall word_ok words -> words <> [] -> pchars (o_ii o) -> pchars (o_si o) ->
  exists groups, concat groups = words /\
    fill cw alnum lbc custom_sp ofit o (join [SP] words) = Some (filled (o_ii o) (o_si o) (o_le o) groups) /\
    (many groups = true -> forall o2 (ht : bool),
       refill cw alnum lbc custom_sp ofit o2
         (filled (o_ii o) (o_si o) (o_le o) groups ++ (if ht then le_str (o_le o) else [])) =
       match fill cw alnum lbc custom_sp ofit
               (mkOptions (o_width o2) (o_le o2) (o_ii o) (o_si o) (o_bw o2) (o_alg o2) (o_sep o2) (o_spl o2))
               (join [SP] words) with
       | Some r => Some (r ++ (if ht then le_str (o_le o2) else []))
       | None => None
       end).
Proof. exact (FillShape.refill_fill_many cw alnum lbc custom_sp ofit). Qed.
End C16.

Print Assumptions C16_refill.
Print Assumptions C16_independent_of_old_width.
Print Assumptions C16_refill_of_fill.
