(* C20 — wrap_columns lays text out in aligned columns, column-major, never failing
   (model of the repaired code: padding saturates). *)
From TW Require Import Columns.
From TW Require Import ColumnsFacts.

Section C20.
Variable cw : char -> N.
Variable alnum : char -> bool.
Variable lbc : str -> list N.
Variable custom_sp : str -> list N.
Variable ofit : penalties -> list word -> list N -> option (list (list word)).
Notation W := (wrap cw alnum lbc custom_sp ofit).
Notation WC := (wrap_columns cw alnum lbc custom_sp ofit).

(* never failing: the only ways to fail are zero columns (documented), usize overflow of
   the gap arithmetic, or wrap itself failing (C04) *)
Theorem C20_total : forall o text columns left mid right,
  WC o text columns left mid right = None <->
  columns = 0 \/ USIZE_MAX < mid_w cw columns mid \/ W (col_opts cw o columns left mid right) text = None.
Proof. exact (wrap_columns_none_iff_full cw alnum lbc custom_sp ofit). Qed.

(* every row is the left gap, the cells separated by the middle gap, the remainder
   padding, the right gap; cell (r,k) is line r + k*rows padded to the column width *)
Theorem C20_shape : forall o text columns left mid right rows ls,
  1 <= columns -> dw cw mid * (columns - 1) <= USIZE_MAX ->
  WC o text columns left mid right = Some rows ->
  W (col_opts cw o columns left mid right) text = Some ls ->
  let lines := map l_text ls in
  let rows_n := ceil_div (length lines) columns in
  rows = map (row_of cw o columns left mid right lines) (seq 0 rows_n) /\
  length rows = rows_n /\
  (forall r, (r < rows_n)%nat -> nth_error rows r = Some (row_of cw o columns left mid right lines r)).
Proof. exact (wrap_columns_shape cw alnum lbc custom_sp ofit). Qed.

(* reading the cells column by column gives back exactly the wrapped lines *)
Theorem C20_column_major : forall (lines : list str) columns, 1 <= columns ->
  let rows_n := ceil_div (length lines) columns in
  flat_map (fun k => flat_map (fun r => opt_list (cell_line lines rows_n r k)) (seq 0 rows_n))
           (seq 0 (N.to_nat columns)) = lines.
Proof. exact columns_readback. Qed.

(* when no wrapped line is wider than the column, all rows have the same display width *)
Theorem C20_row_width : forall o text columns left mid right rows ls,
  1 <= columns -> dw cw mid * (columns - 1) <= USIZE_MAX -> cw SP = 1 ->
  Forall (fun c => c <> ESC) left -> Forall (fun c => c <> ESC) mid -> Forall (fun c => c <> ESC) right ->
  WC o text columns left mid right = Some rows ->
  W (col_opts cw o columns left mid right) text = Some ls ->
  (forall l, In l (map l_text ls) ->
     dw cw l <= col_w cw o columns left mid right /\ final_state Normal l = Normal) ->
  forall row, In row rows ->
    dw cw row = dw cw left + dw cw right + (columns - 1) * dw cw mid
                + columns * col_w cw o columns left mid right
                + inner_w cw o columns left mid right mod col_w cw o columns left mid right.
Proof. exact (wrap_columns_row_width cw alnum lbc custom_sp ofit). Qed.
End C20.

Print Assumptions C20_total.
Print Assumptions C20_shape.
Print Assumptions C20_column_major.
Print Assumptions C20_row_width.
