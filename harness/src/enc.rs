//! Canonical text encoding shared with the OCaml driver.
//!
//! str      : hex scalar values joined by '.', the empty string is "_"
//! list     : elements joined by ',', the empty list is "~"
//! word     : word/ws/pen/width
//! oline    : "O:"str | "B"off":"str | "S:"str
use std::borrow::Cow;
use textwrap::core::Word;

pub fn s(text: &str) -> String {
    if text.is_empty() {
        return "_".to_string();
    }
    let mut out = String::with_capacity(text.len() * 3);
    for (i, ch) in text.chars().enumerate() {
        if i > 0 {
            out.push('.');
        }
        out.push_str(&format!("{:x}", ch as u32));
    }
    out
}

pub fn list<T, F: Fn(&T) -> String>(items: &[T], f: F) -> String {
    if items.is_empty() {
        return "~".to_string();
    }
    items.iter().map(|x| f(x)).collect::<Vec<_>>().join(",")
}

pub fn strs<S: AsRef<str>>(items: &[S]) -> String {
    list(items, |x| s(x.as_ref()))
}

pub fn nums(items: &[usize]) -> String {
    list(items, |x| x.to_string())
}

pub fn word(w: &Word<'_>) -> String {
    format!("{}/{}/{}/{}", s(w.word), s(w.whitespace), s(w.penalty), w.width)
}

pub fn words(ws: &[Word<'_>]) -> String {
    list(ws, word)
}

/// A `Cow` line as seen from the caller's buffer `text`.
pub fn oline(text: &str, l: &Cow<'_, str>) -> String {
    match l {
        Cow::Owned(o) => format!("O:{}", s(o)),
        Cow::Borrowed(b) => {
            let base = text.as_ptr() as usize;
            let p = b.as_ptr() as usize;
            // an empty buffer has no address of its own: its dangling pointer can
            // coincide with that of a static ""
            if !text.is_empty() && p >= base && p + b.len() <= base + text.len() {
                format!("B{}:{}", p - base, s(b))
            } else {
                format!("S:{}", s(b))
            }
        }
    }
}

pub fn olines(text: &str, ls: &[Cow<'_, str>]) -> String {
    list(ls, |l| oline(text, l))
}
