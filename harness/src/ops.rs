//! The operations the harness can run on the implementation, their generators, and
//! decoders for the canonical encoding (so that any case line can be replayed).
use crate::enc;
use crate::gen::{self, Rng};
use std::borrow::Cow;
use std::io::Write;
use std::panic::{catch_unwind, AssertUnwindSafe};
use textwrap::core::{Fragment, Word};
use textwrap::wrap_algorithms::wrap_first_fit;
#[cfg(feature = "full")]
use textwrap::wrap_algorithms::{wrap_optimal_fit, Penalties};
use textwrap::{LineEnding, Options, WordSeparator, WordSplitter, WrapAlgorithm};

// ---------------------------------------------------------------- recording optimal-fit partitions
//
// With optimal-fit the partition is decided inside the external smawk crate (ties, and
// inputs outside its monotonicity contract), so the model takes it as an oracle.  The
// harness observes it through the public WrapAlgorithm::Custom hook wrapping the public
// wrap_optimal_fit, and cross-checks that the built-in OptimalFit variant gives the same
// lines.
thread_local! {
    static REC_PEN: std::cell::Cell<[usize; 5]> = std::cell::Cell::new([1000, 2500, 4, 25, 25]);
    static RECORDS: std::cell::RefCell<Vec<String>> = std::cell::RefCell::new(Vec::new());
    static TEXTS: std::cell::RefCell<Vec<String>> = std::cell::RefCell::new(Vec::new());
}

#[cfg(feature = "full")]
fn recorder<'a, 'b>(words: &'b [Word<'a>], line_widths: &'b [usize]) -> Vec<&'b [Word<'a>]> {
    let p = REC_PEN.with(|c| c.get());
    let pen = penalties_of(p);
    let lws: Vec<f64> = line_widths.iter().map(|w| *w as f64).collect();
    let res = wrap_optimal_fit(words, &lws, &pen).unwrap();
    let key = format!(
        "{}:{}:{}:{}:{}#{}@{}",
        p[0],
        p[1],
        p[2],
        p[3],
        p[4],
        enc::list(words, |w| format!("{}:{}:{}", w.width, w.whitespace.len(), w.penalty.len())),
        enc::nums(line_widths)
    );
    let val = enc::list(&res, |g| g.len().to_string());
    RECORDS.with(|r| {
        let mut r = r.borrow_mut();
        let e = format!("{}={}", key, val);
        if !r.contains(&e) {
            r.push(e);
        }
    });
    res
}

/// texts whose paragraphs the linebreak oracle must cover in addition to the input
fn note_text(t: &str) {
    TEXTS.with(|x| x.borrow_mut().push(t.to_string()));
}

/// The documented default penalties are taken from `Penalties::new()` itself, so that a
/// change of the defaults shows up as a disagreement with the model's `default_penalties`.
#[cfg(feature = "full")]
fn penalties_of(p: [usize; 5]) -> Penalties {
    let mut pen = Penalties::new();
    if p != [1000, 2500, 4, 25, 25] {
        pen.nline_penalty = p[0];
        pen.overflow_penalty = p[1];
        pen.short_last_line_fraction = p[2];
        pen.short_last_line_penalty = p[3];
        pen.hyphen_penalty = p[4];
    }
    pen
}

// ---------------------------------------------------------------- decoding

pub fn ds(f: &str) -> String {
    if f == "_" {
        return String::new();
    }
    f.split('.')
        .map(|h| char::from_u32(u32::from_str_radix(h, 16).expect("hex")).expect("scalar"))
        .collect()
}

fn dlist<'a>(f: &'a str) -> Vec<&'a str> {
    if f == "~" {
        Vec::new()
    } else {
        f.split(',').collect()
    }
}

#[derive(Clone, Debug)]
pub struct OptSpec {
    pub w: usize,
    pub crlf: bool,
    pub ii: String,
    pub si: String,
    pub bw: bool,
    /// None = first fit, Some = optimal fit with these penalties
    pub alg: Option<[usize; 5]>,
    pub unicode: bool,
    /// 0 none, 1 hyphen, 2 custom
    pub spl: u8,
}

/// The custom splitter shared with the model: a split point before every third character.
pub fn custom3(word: &str) -> Vec<usize> {
    word.char_indices()
        .enumerate()
        .filter(|(k, _)| *k > 0 && *k % 3 == 0)
        .map(|(_, (idx, _))| idx)
        .collect()
}

fn ascii_via_custom(line: &str) -> Box<dyn Iterator<Item = Word<'_>> + '_> {
    WordSeparator::AsciiSpace.find_words(line)
}
#[cfg(feature = "full")]
fn unicode_via_custom(line: &str) -> Box<dyn Iterator<Item = Word<'_>> + '_> {
    WordSeparator::UnicodeBreakProperties.find_words(line)
}

impl OptSpec {
    pub fn enc(&self) -> String {
        format!(
            "{};{};{};{};{};{};{};{}",
            self.w,
            if self.crlf { "crlf" } else { "lf" },
            enc::s(&self.ii),
            enc::s(&self.si),
            if self.bw { 1 } else { 0 },
            match self.alg {
                None => "ff".to_string(),
                Some(p) => format!("of:{}:{}:{}:{}:{}", p[0], p[1], p[2], p[3], p[4]),
            },
            if self.unicode { "u" } else { "a" },
            ["n", "h", "c"][self.spl as usize]
        )
    }
    pub fn dec(f: &str) -> OptSpec {
        let p: Vec<&str> = f.split(';').collect();
        OptSpec {
            w: p[0].parse().expect("width"),
            crlf: p[1] == "crlf",
            ii: ds(p[2]),
            si: ds(p[3]),
            bw: p[4] == "1",
            alg: if p[5] == "ff" {
                None
            } else {
                let q: Vec<usize> = p[5].split(':').skip(1).map(|x| x.parse().unwrap()).collect();
                Some([q[0], q[1], q[2], q[3], q[4]])
            },
            unicode: p[6] == "u",
            spl: match p[7] {
                "n" => 0,
                "h" => 1,
                _ => 2,
            },
        }
    }
    /// true when the spec is exactly what `Options::new(width)` documents for this feature set
    fn is_library_default(&self) -> bool {
        let full = cfg!(feature = "full");
        !self.crlf
            && self.ii.is_empty()
            && self.si.is_empty()
            && self.bw
            && self.spl == 1
            && self.unicode == full
            && (if full { self.alg == Some([1000, 2500, 4, 25, 25]) } else { self.alg.is_none() })
    }
    pub fn options(&self) -> Options<'_> {
        if self.is_library_default() {
            // no builder calls: a change of the library's defaults becomes visible
            return Options::new(self.w);
        }
        let mut o = Options::new(self.w)
            .line_ending(if self.crlf { LineEnding::CRLF } else { LineEnding::LF })
            .initial_indent(&self.ii)
            .subsequent_indent(&self.si)
            .break_words(self.bw)
            .word_splitter(match self.spl {
                0 => WordSplitter::NoHyphenation,
                1 => WordSplitter::HyphenSplitter,
                _ => WordSplitter::Custom(custom3),
            });
        o = o.word_separator(self.separator());
        o = o.wrap_algorithm(self.algorithm());
        o
    }
    /// One width in four reaches the built-in separators through `WordSeparator::Custom`
    /// (a function that just delegates), so the Custom dispatch is exercised too; the
    /// choice is a function of the case, hence replayable.
    pub fn separator(&self) -> WordSeparator {
        let via_custom = self.w % 4 == 3;
        #[cfg(feature = "full")]
        if self.unicode {
            return if via_custom { WordSeparator::Custom(unicode_via_custom) } else { WordSeparator::UnicodeBreakProperties };
        }
        if via_custom {
            WordSeparator::Custom(ascii_via_custom)
        } else {
            WordSeparator::AsciiSpace
        }
    }
    /// like `options`, but optimal-fit goes through the recording Custom hook
    pub fn options_rec(&self) -> Options<'_> {
        #[cfg(feature = "full")]
        if let Some(p) = self.alg {
            REC_PEN.with(|c| c.set(p));
            return self.options().wrap_algorithm(WrapAlgorithm::Custom(recorder));
        }
        self.options()
    }
    pub fn algorithm(&self) -> WrapAlgorithm {
        #[cfg(feature = "full")]
        if let Some(p) = self.alg {
            if p == [1000, 2500, 4, 25, 25] {
                return WrapAlgorithm::new_optimal_fit();
            }
            return WrapAlgorithm::OptimalFit(penalties_of(p));
        }
        WrapAlgorithm::FirstFit
    }
}

struct OwnedWord {
    word: String,
    ws: String,
    pen: String,
    width: usize,
}
fn dword(f: &str) -> OwnedWord {
    let p: Vec<&str> = f.split('/').collect();
    OwnedWord { word: ds(p[0]), ws: ds(p[1]), pen: ds(p[2]), width: p[3].parse().unwrap() }
}
fn borrow_word(w: &OwnedWord) -> Word<'_> {
    let mut x = Word::from(&w.word);
    // Word::from trims; rebuild the fields exactly
    x.word = &w.word;
    x.whitespace = &w.ws;
    x.penalty = &w.pen;
    x.width = w.width;
    x
}

#[derive(Debug, Clone, Copy)]
pub struct Frag(pub f64, pub f64, pub f64);
impl Fragment for Frag {
    fn width(&self) -> f64 {
        self.0
    }
    fn whitespace_width(&self) -> f64 {
        self.1
    }
    fn penalty_width(&self) -> f64 {
        self.2
    }
}

/// number: "p/q" (q a power of two), "p", "-p", or "x<16 hex digits>" for raw f64 bits
fn dnum(f: &str) -> f64 {
    if f == "-0" {
        return -0.0;
    }
    if let Some(h) = f.strip_prefix('x') {
        return f64::from_bits(u64::from_str_radix(h, 16).unwrap());
    }
    match f.split_once('/') {
        Some((p, q)) => p.parse::<i64>().unwrap() as f64 / q.parse::<i64>().unwrap() as f64,
        None => f.parse::<i64>().unwrap() as f64,
    }
}
fn dfrags(f: &str) -> Vec<Frag> {
    dlist(f)
        .iter()
        .map(|t| {
            let p: Vec<&str> = t.split(':').collect();
            Frag(dnum(p[0]), dnum(p[1]), dnum(p[2]))
        })
        .collect()
}
fn dnums(f: &str) -> Vec<f64> {
    dlist(f).iter().map(|t| dnum(t)).collect()
}

fn groups_enc<T>(all: &[T], groups: &[&[T]]) -> String {
    let base = all.as_ptr() as usize;
    let sz = std::mem::size_of::<T>().max(1);
    enc::list(groups, |g| {
        let off = (g.as_ptr() as usize).wrapping_sub(base) / sz;
        format!("{}+{}", off, g.len())
    })
}

fn guarded<F: FnOnce() -> String>(f: F) -> String {
    match catch_unwind(AssertUnwindSafe(f)) {
        Ok(s) => s,
        Err(_) => "PANIC".to_string(),
    }
}

// ---------------------------------------------------------------- the escape machine (for the linebreak oracle)

pub fn strip_ansi(text: &str) -> String {
    #[derive(Clone, Copy, PartialEq)]
    enum St {
        Normal,
        AfterEsc,
        Csi,
        Osc(bool),
    }
    let mut st = St::Normal;
    let mut out = String::new();
    for c in text.chars() {
        st = match st {
            St::Normal => {
                if c == '\x1b' {
                    St::AfterEsc
                } else {
                    out.push(c);
                    St::Normal
                }
            }
            St::AfterEsc => {
                if c == '[' {
                    St::Csi
                } else if c == ']' {
                    St::Osc(false)
                } else {
                    St::Normal
                }
            }
            St::Csi => {
                if ('\x40'..='\x7e').contains(&c) {
                    St::Normal
                } else {
                    St::Csi
                }
            }
            St::Osc(l) => {
                if c == '\x07' || (c == '\\' && l) {
                    St::Normal
                } else {
                    St::Osc(c == '\x1b')
                }
            }
        };
    }
    out
}

/// `unicode_linebreak::linebreaks` tabulated on the stripped paragraphs of the given texts.
#[cfg(feature = "full")]
pub fn oracle(texts: &[&str]) -> String {
    let mut keys: Vec<String> = Vec::new();
    for t in texts {
        let mut add = |p: &str| {
            let st = strip_ansi(p);
            if !keys.contains(&st) {
                keys.push(st);
            }
        };
        add(t);
        for p in t.split('\n') {
            add(p);
        }
        for p in t.split("\r\n") {
            add(p);
        }
    }
    if keys.is_empty() {
        return "-".to_string();
    }
    keys.iter()
        .map(|k| {
            let br: Vec<usize> = unicode_linebreak::linebreaks(k).map(|(i, _)| i).collect();
            // validated assumptions about the external crate (reported by the check)
            let ok = if k.is_empty() {
                br.is_empty()
            } else {
                br.last() == Some(&k.len())
                    && br.windows(2).all(|w| w[0] < w[1])
                    && br.iter().all(|&i| i > 0 && k.is_char_boundary(i))
                    && br.iter().all(|&i| !(k[..i].ends_with(' ') && k[i..].starts_with(' ')))
            };
            format!("{}{}={}", if ok { "" } else { "!" }, enc::s(k), enc::nums(&br))
        })
        .collect::<Vec<_>>()
        .join("|")
}
#[cfg(not(feature = "full"))]
pub fn oracle(_texts: &[&str]) -> String {
    "-".to_string()
}

// ---------------------------------------------------------------- tables

pub fn tables(cwfile: &str, alnumfile: &str) {
    let mut cw = std::fs::File::create(cwfile).unwrap();
    let mut al = std::fs::File::create(alnumfile).unwrap();
    let mut run: Option<(u32, u32, usize)> = None;
    let mut arun: Option<(u32, u32)> = None;
    let mut mism = 0usize;
    for u in 0..=0x10FFFFu32 {
        let c = match char::from_u32(u) {
            Some(c) => c,
            None => continue,
        };
        let mut buf = [0u8; 4];
        let w = textwrap::core::display_width(c.encode_utf8(&mut buf));
        // ESC swallows itself; every other single character is measured by ch_width
        #[cfg(feature = "full")]
        {
            let direct = unicode_width::UnicodeWidthChar::width(c).unwrap_or(0);
            if c != '\x1b' && direct != w {
                mism += 1;
                println!("mismatch dw U+{:04X} display_width={} unicode-width={}", u, w, direct);
            }
        }
        #[cfg(not(feature = "full"))]
        {
            let direct = if u < 0x1100 { 1 } else { 2 };
            if c != '\x1b' && direct != w {
                mism += 1;
                println!("mismatch dw U+{:04X} display_width={} rule={}", u, w, direct);
            }
        }
        match run {
            Some((lo, hi, rw)) if rw == w && (hi + 1 == u || (hi == 0xD7FF && u == 0xE000)) => run = Some((lo, u, rw)),
            Some((lo, hi, rw)) => {
                writeln!(cw, "{} {} {}", lo, hi, rw).unwrap();
                run = Some((u, u, w));
            }
            None => run = Some((u, u, w)),
        }
        if c.is_alphanumeric() {
            match arun {
                Some((lo, hi)) if hi + 1 == u => arun = Some((lo, u)),
                Some((lo, hi)) => {
                    writeln!(al, "{} {}", lo, hi).unwrap();
                    arun = Some((u, u));
                }
                None => arun = Some((u, u)),
            }
        }
        // the model hard-codes utf8_len and is_whitespace: checked exhaustively here
        let ml = if u < 0x80 { 1 } else if u < 0x800 { 2 } else if u < 0x10000 { 3 } else { 4 };
        if ml != c.len_utf8() {
            mism += 1;
        }
        let mws = (9..=13).contains(&u)
            || [32, 133, 160, 5760, 8232, 8233, 8239, 8287, 12288].contains(&u)
            || (8192..=8202).contains(&u);
        if mws != c.is_whitespace() {
            mism += 1;
        }
    }
    if let Some((lo, hi, rw)) = run {
        writeln!(cw, "{} {} {}", lo, hi, rw).unwrap();
    }
    if let Some((lo, hi)) = arun {
        writeln!(al, "{} {}", lo, hi).unwrap();
    }
    println!("tables mismatches={}", mism);
}

// ---------------------------------------------------------------- running one case

pub fn mode_salt(mode: &str) -> u64 {
    mode.bytes().fold(0xcbf29ce484222325u64, |h, b| (h ^ b as u64).wrapping_mul(0x100000001b3))
}

/// Runs `f` with the recording options and, for optimal-fit, also with the built-in
/// variant; the two must agree.
fn both<F: Fn(Options<'_>) -> String>(o: &OptSpec, f: F) -> String {
    let a = guarded(|| f(o.options_rec()));
    if o.alg.is_some() {
        let b = guarded(|| f(o.options()));
        if a != b {
            return format!("CUSTOM-MISMATCH[{}][{}]", a, b);
        }
    }
    a
}
fn wrap_enc(text: &str, o: &OptSpec) -> String {
    both(o, |opts| enc::olines(text, &textwrap::wrap(text, &opts)))
}
fn fill_enc(text: &str, o: &OptSpec) -> String {
    both(o, |opts| enc::s(&textwrap::fill(text, opts)))
}

/// Runs the implementation on decoded inputs; fields[0] is the op name.
pub fn run(fields: &[&str]) -> String {
    match fields[0] {
        "dw" => {
            let t = ds(fields[1]);
            guarded(|| textwrap::core::display_width(&t).to_string())
        }
        "wf" => {
            let t = ds(fields[1]);
            guarded(|| enc::word(&Word::from(&t)))
        }
        "ba" => {
            let ow = dword(fields[1]);
            let lim: usize = fields[2].parse().unwrap();
            guarded(|| {
                let w = borrow_word(&ow);
                let v: Vec<Word<'_>> = w.break_apart(lim).collect();
                enc::words(&v)
            })
        }
        "bw" => {
            let ows: Vec<OwnedWord> = dlist(fields[1]).iter().map(|f| dword(f)).collect();
            let lim: usize = fields[2].parse().unwrap();
            guarded(|| {
                let ws: Vec<Word<'_>> = ows.iter().map(borrow_word).collect();
                enc::words(&textwrap::core::break_words(ws, lim))
            })
        }
        "fwa" => {
            let t = ds(fields[1]);
            guarded(|| enc::words(&WordSeparator::AsciiSpace.find_words(&t).collect::<Vec<_>>()))
        }
        #[cfg(feature = "full")]
        "fwu" => {
            let t = ds(fields[1]);
            guarded(|| enc::words(&WordSeparator::UnicodeBreakProperties.find_words(&t).collect::<Vec<_>>()))
        }
        "hp" => {
            let t = ds(fields[1]);
            guarded(|| enc::nums(&WordSplitter::HyphenSplitter.split_points(&t)))
        }
        "sw" => {
            let spl = match fields[1] {
                "n" => WordSplitter::NoHyphenation,
                "h" => WordSplitter::HyphenSplitter,
                _ => WordSplitter::Custom(custom3),
            };
            let ows: Vec<OwnedWord> = dlist(fields[2]).iter().map(|f| dword(f)).collect();
            guarded(|| {
                let ws: Vec<Word<'_>> = ows.iter().map(borrow_word).collect();
                let v: Vec<Word<'_>> = textwrap::word_splitters::split_words(ws, &spl).collect();
                enc::words(&v)
            })
        }
        // WrapAlgorithm::wrap called directly: usize widths (any number of them), dispatch and
        // the usize -> f64 conversion.  args: words, widths, algorithm ("ff" | "of:p:p:p:p:p")
        "walg" => {
            let ows: Vec<OwnedWord> = dlist(fields[1]).iter().map(|f| dword(f)).collect();
            let lws: Vec<usize> = dlist(fields[2]).iter().map(|x| x.parse().unwrap()).collect();
            let alg_s = fields[3].to_string();
            guarded(|| {
                let ws: Vec<Word<'_>> = ows.iter().map(borrow_word).collect();
                let spec = OptSpec::dec(&format!("0;lf;_;_;0;{};a;n", alg_s));
                let alg = spec.algorithm();
                let lines = alg.wrap(&ws, &lws);
                groups_enc(&ws, &lines)
            })
        }
        "ff" | "ffx" => {
            let frs = dfrags(fields[1]);
            let lws = dnums(fields[2]);
            guarded(|| groups_enc(&frs, &wrap_first_fit(&frs, &lws)))
        }
        #[cfg(feature = "full")]
        "of" | "ofx" | "ofu" => {
            let frs = dfrags(fields[1]);
            let lws = dnums(fields[2]);
            let p: Vec<usize> = fields[3].split(':').map(|x| x.parse().unwrap()).collect();
            guarded(|| {
                let pen = penalties_of([p[0], p[1], p[2], p[3], p[4]]);
                match wrap_optimal_fit(&frs, &lws, &pen) {
                    Ok(g) => groups_enc(&frs, &g),
                    Err(_) => "ERR".to_string(),
                }
            })
        }
        "wrap" => {
            let o = OptSpec::dec(fields[1]);
            let t = ds(fields[2]);
            if o.unicode {
                if let Ok(ls) = catch_unwind(AssertUnwindSafe(|| {
                    textwrap::wrap(&t, o.options()).iter().map(|l| l.to_string()).collect::<Vec<_>>()
                })) {
                    for (i, l) in ls.iter().enumerate() {
                        let ind = if i == 0 { &o.ii } else { &o.si };
                        let body = l.strip_prefix(ind.as_str()).unwrap_or(l);
                        note_text(body);
                        if let Some(b2) = body.strip_suffix('-') {
                            note_text(b2);
                        }
                    }
                }
            }
            wrap_enc(&t, &o)
        }
        "fill" => {
            let o = OptSpec::dec(fields[1]);
            let t = ds(fields[2]);
            fill_enc(&t, &o)
        }
        // wrap_single_line (dispatching) and the slow path on one paragraph; `first`
        // says whether `lines` is empty on entry
        "wsl" => {
            let o = OptSpec::dec(fields[1]);
            let first = fields[2] == "1";
            let t = ds(fields[3]);
            let one = |slow: bool| {
                both(&o, |opts| {
                    let mut lines: Vec<Cow<'_, str>> = Vec::new();
                    if !first {
                        lines.push(Cow::Borrowed("dummy"));
                    }
                    if slow {
                        textwrap::fuzzing::wrap_single_line_slow_path(&t, &opts, &mut lines);
                    } else {
                        textwrap::fuzzing::wrap_single_line(&t, &opts, &mut lines);
                    }
                    if !first {
                        lines.remove(0);
                    }
                    enc::olines(&t, &lines)
                })
            };
            format!("{}\t{}", one(false), one(true))
        }
        "fills" => {
            let o = OptSpec::dec(fields[1]);
            let t = ds(fields[2]);
            let a = fill_enc(&t, &o);
            let b = both(&o, |opts| enc::s(&textwrap::fuzzing::fill_slow_path(&t, opts)));
            format!("{}\t{}", a, b)
        }
        "fip" => {
            let t = ds(fields[1]);
            let w: usize = fields[2].parse().unwrap();
            let a = guarded(|| {
                let mut s = t.clone();
                textwrap::fill_inplace(&mut s, w);
                enc::s(&s)
            });
            // what fill_inplace documents itself to be equivalent to
            let o = OptSpec { w, crlf: false, ii: String::new(), si: String::new(), bw: false, alg: None, unicode: false, spl: 0 };
            format!("{}\t{}", a, wrap_enc(&t, &o))
        }
        "unfill" => {
            let t = ds(fields[1]);
            guarded(|| {
                let (text, o) = textwrap::unfill(&t);
                format!(
                    "{}/{}/{}/{}/{}",
                    enc::s(&text),
                    o.width,
                    enc::s(o.initial_indent),
                    enc::s(o.subsequent_indent),
                    if o.line_ending == LineEnding::CRLF { "crlf" } else { "lf" }
                )
            })
        }
        "refill" => {
            let o = OptSpec::dec(fields[1]);
            let t = ds(fields[2]);
            if let Ok((u, _)) = catch_unwind(AssertUnwindSafe(|| textwrap::unfill(&t))) {
                note_text(&u);
            }
            both(&o, |opts| enc::s(&textwrap::refill(&t, opts)))
        }
        "indent" => {
            let t = ds(fields[1]);
            let p = ds(fields[2]);
            guarded(|| enc::s(&textwrap::indent(&t, &p)))
        }
        "dedent" => {
            let t = ds(fields[1]);
            guarded(|| enc::s(&textwrap::dedent(&t)))
        }
        "wc" => {
            let o = OptSpec::dec(fields[1]);
            let t = ds(fields[2]);
            let cols: usize = fields[3].parse().unwrap();
            let (l, m, r) = (ds(fields[4]), ds(fields[5]), ds(fields[6]));
            let rows = both(&o, |opts| enc::strs(&textwrap::wrap_columns(&t, cols, opts, &l, &m, &r)));
            // the lines wrap() gives at the documented column width
            let dwf = textwrap::core::display_width;
            let inner = o.w.saturating_sub(dwf(&l)).saturating_sub(dwf(&r)).saturating_sub(dwf(&m).saturating_mul(cols.saturating_sub(1)));
            let mut oc = o.clone();
            oc.w = std::cmp::max(inner / cols.max(1), 1);
            format!("{}\t{}", rows, wrap_enc(&t, &oc))
        }
        // C08: the same text with two indent pairs of equal widths and emptiness
        "wrap8" => {
            let o = OptSpec::dec(fields[1]);
            let mut o2 = o.clone();
            o2.ii = ds(fields[2]);
            o2.si = ds(fields[3]);
            let t = ds(fields[4]);
            format!("{}\t{}", wrap_enc(&t, &o), wrap_enc(&t, &o2))
        }
        // C09: a, a+le+b, b, a2+le+b, fill(a+le+b), and the LF/CRLF pair
        "wrap9" => {
            let o = OptSpec::dec(fields[1]);
            let (a, b, a2) = (ds(fields[2]), ds(fields[3]), ds(fields[4]));
            let le = if o.crlf { "\r\n" } else { "\n" };
            let ab = format!("{}{}{}", a, le, b);
            let a2b = format!("{}{}{}", a2, le, b);
            let mut olf = o.clone();
            olf.crlf = false;
            let mut ocr = o.clone();
            ocr.crlf = true;
            let t_lf = format!("{}\n{}", a, b);
            let t_cr = t_lf.replace('\n', "\r\n");
            note_text(&ab);
            note_text(&b);
            note_text(&a2b);
            note_text(&t_lf);
            note_text(&t_cr);
            [
                wrap_enc(&a, &o),
                wrap_enc(&ab, &o),
                wrap_enc(&b, &o),
                wrap_enc(&a2b, &o),
                fill_enc(&ab, &o),
                fill_enc(&t_lf, &olf),
                fill_enc(&t_cr, &ocr),
                fill_enc(&b, &o),
            ]
            .join("\t")
        }
        // C13: coloured text and the same text with the sequences removed
        "wrap13" => {
            let o = OptSpec::dec(fields[1]);
            let t = ds(fields[2]);
            let st = strip_ansi(&t);
            note_text(&st);
            format!("{}\t{}", wrap_enc(&t, &o), wrap_enc(&st, &o))
        }
        // C15: fill a paragraph of words, then unfill it
        "unfill15" => {
            let o = OptSpec::dec(fields[1]);
            let words: Vec<String> = dlist(fields[2]).iter().map(|w| ds(w)).collect();
            let tail = fields[3] == "1";
            let para = words.join(" ");
            let le = if o.crlf { "\r\n" } else { "\n" };
            let filled = guarded(|| {
                let mut f = textwrap::fill(&para, o.options());
                if tail {
                    f.push_str(le);
                }
                f
            });
            if filled == "PANIC" {
                return "PANIC".to_string();
            }
            let u = guarded(|| {
                let (text, uo) = textwrap::unfill(&filled);
                format!(
                    "{}/{}/{}/{}/{}",
                    enc::s(&text),
                    uo.width,
                    enc::s(uo.initial_indent),
                    enc::s(uo.subsequent_indent),
                    if uo.line_ending == LineEnding::CRLF { "crlf" } else { "lf" }
                )
            });
            format!("{}\t{}", enc::s(&filled), u)
        }
        // C16: refill(fill(t, o1), o2) against fill(t, o2 with o1's indents)
        "refill16" => {
            let o1 = OptSpec::dec(fields[1]);
            let o2 = OptSpec::dec(fields[2]);
            let words: Vec<String> = dlist(fields[3]).iter().map(|w| ds(w)).collect();
            let tail = fields[4] == "1";
            let para = words.join(" ");
            let le1 = if o1.crlf { "\r\n" } else { "\n" };
            let filled = guarded(|| {
                let mut f = textwrap::fill(&para, o1.options());
                if tail {
                    f.push_str(le1);
                }
                f
            });
            if filled == "PANIC" {
                return "PANIC".to_string();
            }
            let mut o3 = o2.clone();
            o3.ii = o1.ii.clone();
            o3.si = o1.si.clone();
            let r = guarded(|| enc::s(&textwrap::refill(&filled, o2.options())));
            format!("{}\t{}\t{}", enc::s(&filled), r, fill_enc(&para, &o3))
        }
        // the small public API around the options: defaults, builders, equality, Display
        "api" => guarded(|| {
            let b = |x: bool| if x { "1" } else { "0" }.to_string();
            let o = Options::from(17usize);
            let o2 = Options::new(5).initial_indent("> ").break_words(false).width(9);
            let mut items = vec![
                b(WrapAlgorithm::default() == WrapAlgorithm::new()),
                b(WrapAlgorithm::FirstFit == WrapAlgorithm::FirstFit),
                b(WordSeparator::AsciiSpace == WordSeparator::AsciiSpace),
                b(WordSplitter::NoHyphenation == WordSplitter::NoHyphenation),
                b(WordSplitter::HyphenSplitter == WordSplitter::HyphenSplitter),
                b(WordSplitter::NoHyphenation == WordSplitter::HyphenSplitter),
                format!("{};{};{};{};{}", o.width, enc::s(o.line_ending.as_str()), enc::s(o.initial_indent), enc::s(o.subsequent_indent), b(o.break_words)),
                b(o.word_splitter == WordSplitter::HyphenSplitter),
                b(o.word_separator == WordSeparator::new()),
                b(o.wrap_algorithm == WrapAlgorithm::new()),
                format!("{};{};{};{};{}", o2.width, enc::s(o2.line_ending.as_str()), enc::s(o2.initial_indent), enc::s(o2.subsequent_indent), b(o2.break_words)),
                enc::s(LineEnding::CRLF.as_str()),
            ];
            #[cfg(not(feature = "full"))]
            {
                items.push(b(WrapAlgorithm::new() == WrapAlgorithm::FirstFit));
                items.push(b(WordSeparator::new() == WordSeparator::AsciiSpace));
            }
            #[cfg(feature = "full")]
            {
                let pens = |p: &Penalties| {
                    format!(
                        "{}:{}:{}:{}:{}",
                        p.nline_penalty, p.overflow_penalty, p.short_last_line_fraction, p.short_last_line_penalty, p.hyphen_penalty
                    )
                };
                let mut other = Penalties::new();
                other.hyphen_penalty += 1;
                items.push(pens(&Penalties::default()));
                items.push(pens(&Penalties::new()));
                items.push(b(WrapAlgorithm::FirstFit == WrapAlgorithm::OptimalFit(Penalties::new())));
                items.push(b(WrapAlgorithm::OptimalFit(Penalties::new()) == WrapAlgorithm::OptimalFit(Penalties::new())));
                items.push(b(WrapAlgorithm::OptimalFit(Penalties::new()) == WrapAlgorithm::OptimalFit(other)));
                items.push(b(WrapAlgorithm::new() == WrapAlgorithm::OptimalFit(Penalties::new())));
                items.push(b(WordSeparator::UnicodeBreakProperties == WordSeparator::UnicodeBreakProperties));
                items.push(b(WordSeparator::AsciiSpace == WordSeparator::UnicodeBreakProperties));
                items.push(b(WordSeparator::new() == WordSeparator::UnicodeBreakProperties));
                let w = [Word::from("a "), Word::from("b")];
                items.push(match wrap_optimal_fit(&w, &[1e200], &Penalties::new()) {
                    Err(e) => enc::s(&format!("{}", e)),
                    Ok(_) => "no-overflow-error".to_string(),
                });
            }
            items.join("\t")
        }),
        // the std string primitives the model re-implements (Model/Chars.v)
        "std" => {
            let t = ds(fields[1]);
            guarded(|| {
                [
                    enc::strs(&t.lines().collect::<Vec<_>>()),
                    enc::strs(&t.split('\n').collect::<Vec<_>>()),
                    enc::strs(&t.split("\r\n").collect::<Vec<_>>()),
                    enc::strs(&t.split_terminator('\n').collect::<Vec<_>>()),
                    enc::s(t.trim_end_matches(' ')),
                    enc::s(t.trim()),
                    enc::s(t.trim_end()),
                    t.len().to_string(),
                    (if t.ends_with('\n') { "1" } else { "0" }).to_string(),
                    (if t.ends_with("\r\n") { "1" } else { "0" }).to_string(),
                ]
                .join("\t")
            })
        }
        "dedent18" => {
            let t = ds(fields[1]);
            let p = ds(fields[2]);
            guarded(|| {
                let d = textwrap::dedent(&t);
                let dd = textwrap::dedent(&d);
                let di = textwrap::dedent(&textwrap::indent(&t, &p));
                format!("{}\t{}\t{}", enc::s(&d), enc::s(&dd), enc::s(&di))
            })
        }
        // fill twice (C14)
        "fill2" => {
            let o = OptSpec::dec(fields[1]);
            let t = ds(fields[2]);
            both(&o, |opts| {
                let a = textwrap::fill(&t, opts.clone());
                note_text(&a);
                let b = textwrap::fill(&a, opts);
                format!("{}\t{}", enc::s(&a), enc::s(&b))
            })
        }
        other => format!("UNKNOWN-OP {}", other),
    }
}

/// the input texts whose paragraphs the Unicode separator will see
fn oracle_inputs(fields: &[&str]) -> Vec<String> {
    let with_opts = |oi: usize, ti: usize| {
        if OptSpec::dec(fields[oi]).unicode {
            vec![ds(fields[ti])]
        } else {
            Vec::new()
        }
    };
    match fields[0] {
        "fwu" => vec![ds(fields[1])],
        "wrap" | "fill" | "fill2" | "fills" | "refill" | "wc" | "wrap9" | "wrap13" => with_opts(1, 2),
        "wsl" => with_opts(1, 3),
        "wrap8" => with_opts(1, 4),
        _ => Vec::new(),
    }
}

pub fn emit<W: Write>(fields: &[String], out: &mut W) {
    let refs: Vec<&str> = fields.iter().map(|s| s.as_str()).collect();
    let desc = fields.join("\t");
    RECORDS.with(|r| r.borrow_mut().clear());
    TEXTS.with(|r| r.borrow_mut().clear());
    crate::begin_case(&desc);
    // call history: one case in 32 (a function of the case, hence replayable) is preceded, on
    // the same thread, by a call that ends in optimal-fit's overflow error -- results must not
    // depend on what was called before
    if mode_salt(&desc) % 32 == 0 {
        poison_call();
    }
    let res = run(&refs);
    crate::end_case();
    let mut texts = oracle_inputs(&refs);
    if !texts.is_empty() {
        TEXTS.with(|x| texts.extend(x.borrow().iter().cloned()));
    }
    let trefs: Vec<&str> = texts.iter().map(|s| s.as_str()).collect();
    let lbc = if trefs.is_empty() { "-".to_string() } else { oracle(&trefs) };
    let rec = RECORDS.with(|r| {
        let r = r.borrow();
        if r.is_empty() {
            "-".to_string()
        } else {
            r.join("|")
        }
    });
    writeln!(out, "{}\t@lbc\t{}\t@rec\t{}\t=>\t{}", desc, lbc, rec, res).unwrap();
}

#[cfg(feature = "full")]
fn poison_call() {
    let _ = catch_unwind(AssertUnwindSafe(|| {
        let w = [Word::from("a "), Word::from("b"), Word::from("c")];
        let _ = wrap_optimal_fit(&w, &[1e200, 3.0], &Penalties::new());
        let frs: Vec<Frag> = (0..12).map(|_| Frag(1e306, 0.0, 0.0)).collect();
        let _ = wrap_optimal_fit(&frs, &[1.0], &Penalties::new());
    }));
}
#[cfg(not(feature = "full"))]
fn poison_call() {}

pub fn replay<W: Write>(fields: &[&str], out: &mut W) {
    let owned: Vec<String> = fields.iter().map(|s| s.to_string()).collect();
    emit(&owned, out);
}

// ---------------------------------------------------------------- generators

pub fn gen_opts(r: &mut Rng, text: &str) -> OptSpec {
    let full = cfg!(feature = "full");
    let alg = if full && r.chance(1, 2) {
        if r.chance(3, 4) {
            Some([1000, 2500, 4, 25, 25])
        } else {
            // each penalty may be absent, tiny or dominant; fraction 0 (= "every
            // single-word last line is short") is a value of its own
            let v = |r: &mut Rng| match r.below(6) {
                0 => 0,
                1 => 1,
                2 => r.below(10),
                3 => r.below(100),
                4 => r.below(5000),
                _ => r.below(100000),
            };
            let frac = match r.below(4) {
                0 => 0,
                1 => 1 + r.below(4),
                _ => r.below(30),
            };
            Some([v(r), v(r), frac, v(r), v(r)])
        }
    } else {
        None
    };
    let (ii, si) = match r.below(4) {
        0 | 1 => (String::new(), String::new()),
        2 => (r.pick(gen::INDENTS).to_string(), r.pick(gen::INDENTS).to_string()),
        _ => {
            let x = r.pick(gen::INDENTS).to_string();
            (x.clone(), x)
        }
    };
    let crlf = r.chance(1, 4);
    let mut probe = String::from(text);
    probe.push_str(&ii);
    OptSpec {
        w: gen::width_for(r, &probe),
        crlf,
        ii,
        si,
        bw: r.chance(2, 3),
        alg,
        unicode: full && r.chance(1, 2),
        spl: *r.pick(&[0u8, 1, 1, 1, 2]),
    }
}

fn gen_word(r: &mut Rng) -> String {
    match r.below(8) {
        6 => r.ps(&["what ?!", "a )", "[ foo ]", "x  y", "foo /", "👩\u{200d}💻👩\u{200d}💻", "ab\u{200d}cde", "👍\u{1f3fd}👍\u{1f3fd}", "a\tb\tc", "\u{644}\u{627}\u{644}\u{627}"]).to_string(),
        7 => gen::text_over(r, &["a", " ", "Ｈ", "\u{200d}", "\t", "\u{301}", "?", "\x1b[0m", "\u{1f3fd}", "👍"], 7).trim_end_matches(' ').to_string(),
        0 => gen::text_over(r, &["a", "-", "é", "Ｈ", "\u{301}", "\x1b[31m", "b"], 8),
        1 => gen::text_over(r, gen::RAW, 8).replace(' ', "x"),
        2 => format!("{}{}{}", r.pick(gen::SGR), r.pick(gen::VOCAB), r.pick(gen::SGR)),
        _ => r.pick(gen::VOCAB).to_string(),
    }
}

/// what follows the margin on a line: usually a word, sometimes content that is not
/// whitespace but has no display width (escape sequences, zero-width characters, controls)
fn line_content(r: &mut Rng) -> &'static str {
    if r.chance(1, 4) {
        r.ps(&["\x1b[1m", "\x1b[0m", "\u{200b}", "\u{301}", "\u{feff}", "\x1b]8;;\x1b\\", "\x07", "\u{200d}", "\x1b[31m\x1b[0m"])
    } else {
        r.ps(gen::VOCAB)
    }
}

fn gen_owned_word(r: &mut Rng) -> String {
    let w = gen_word(r);
    let ws = " ".repeat(*r.pick(&[0usize, 1, 1, 1, 2, 3]));
    let pen = if r.chance(1, 6) { "-" } else { "" };
    let width = textwrap::core::display_width(&w);
    format!("{}/{}/{}/{}", enc::s(&w), enc::s(&ws), enc::s(pen), width)
}

static TINY_OK: std::sync::atomic::AtomicBool = std::sync::atomic::AtomicBool::new(false);

fn gen_num(r: &mut Rng, frac: bool, neg: bool) -> String {
    let v = match r.below(10) {
        0 => 0,
        1..=6 => r.below(12) as i64,
        7 => r.below(100) as i64,
        8 => r.below(1 << 20) as i64,
        _ => r.below(4) as i64,
    };
    let v = if neg && r.chance(1, 6) { -v } else { v };
    if frac && TINY_OK.load(std::sync::atomic::Ordering::Relaxed) && r.chance(1, 12) {
        // a tiny dyadic excess or deficit (exact in f64 as long as numbers are only added and
        // compared, i.e. for first-fit; optimal-fit squares gaps): v +- k/2^40
        let q: i64 = 1 << 40;
        let k = r.range(1, 3) as i64 * if r.chance(1, 2) { 1 } else { -1 };
        let num = v.abs().min(1000) * q + k;
        if num > 0 {
            return format!("{}/{}", num, q);
        }
    }
    if frac && r.chance(1, 3) {
        let q = *r.pick(&[2i64, 4, 8]);
        format!("{}/{}", v * q + r.below(q as usize) as i64 * if v < 0 { -1 } else { 1 }, q)
    } else {
        v.to_string()
    }
}

fn gen_frags(r: &mut Rng, maxn: usize, frac: bool, neg: bool) -> String {
    let n = match r.below(40) {
        0..=3 => 0,
        4..=7 => 1,
        8..=31 => r.range(2, 12.min(maxn)),
        32 => { if r.chance(1, 8) { r.range(maxn, maxn * 5) } else { r.range(2, maxn) } }
        _ => r.range(2, maxn),
    };
    let v: Vec<String> = (0..n)
        .map(|_| {
            let w = gen_num(r, frac, neg);
            let ws = if r.chance(3, 4) { "1".to_string() } else { gen_num(r, frac, neg) };
            // penalty never wider than a small constant; the C03 precondition
            // (penalty <= next width) is decided by the checker, not forced here
            let p = if r.chance(4, 5) { "0".to_string() } else if r.chance(3, 4) { "1".to_string() } else { gen_num(r, frac, neg) };
            format!("{}:{}:{}", w, ws, p)
        })
        .collect();
    if v.is_empty() {
        "~".to_string()
    } else {
        v.join(",")
    }
}

fn gen_lws(r: &mut Rng, frac: bool, maxlen: usize) -> String {
    let n = *r.pick(&[1usize, 1, 1, 2, 2, 0, 3, 5]);
    let n = n.min(maxlen);
    if n == 0 {
        return "~".to_string();
    }
    (0..n)
        .map(|_| match r.below(8) {
            0 => if frac && r.chance(1, 4) { "-0".to_string() } else { "0".to_string() },
            1 => "1".to_string(),
            _ => {
                if frac && r.chance(1, 4) {
                    format!("{}/2", r.range(1, 60))
                } else {
                    r.range(1, 40).to_string()
                }
            }
        })
        .collect::<Vec<_>>()
        .join(",")
}

/// Small-scope exhaustive enumeration: every string of length <= maxlen over `alphabet`,
/// crossed with `extra` (widths / option variants); shard `shard` of `nshards`.
fn enumerate<F: FnMut(&str, usize)>(alphabet: &[&str], maxlen: usize, nextra: usize, shard: usize, nshards: usize, mut f: F) {
    let k = alphabet.len();
    let mut idx = 0usize;
    for len in 0..=maxlen {
        let total = k.pow(len as u32);
        for code in 0..total {
            let mut t = String::new();
            let mut c = code;
            for _ in 0..len {
                t.push_str(alphabet[c % k]);
                c /= k;
            }
            for e in 0..nextra {
                if idx % nshards == shard {
                    f(&t, e);
                }
                idx += 1;
            }
        }
    }
}

pub fn exhaustive<W: Write>(mode: &str, shard: usize, nshards: usize, out: &mut W) {
    let nshards = nshards.max(1);
    match mode {
        "exh-dw" => enumerate(&["a", "\x1b", "[", "]", "m", "\x07", "\\", "Ｈ", "\u{301}"], 5, 1, shard, nshards, |t, _| {
            emit(&["dw".to_string(), enc::s(t)], out)
        }),
        "exh-fip" => enumerate(&["a", " ", "é", "\n"], 8, 7, shard, nshards, |t, w| {
            emit(&["fip".to_string(), enc::s(t), w.to_string()], out)
        }),
        "exh-dedent" => enumerate(&[" ", "\t", "\u{a0}", "a", "\n"], 7, 1, shard, nshards, |t, _| {
            emit(&["dedent18".to_string(), enc::s(t), enc::s(" ")], out)
        }),
        "exh-indent" => enumerate(&[" ", "\t", "a", "\n", "\r"], 6, 3, shard, nshards, |t, e| {
            emit(&["indent".to_string(), enc::s(t), enc::s(["", "> ", " \t"][e])], out)
        }),
        "exh-fwa" => enumerate(&["a", " ", "-", "é", "\x1b", "[", "m"], 7, 1, shard, nshards, |t, _| {
            emit(&["fwa".to_string(), enc::s(t)], out)
        }),
        "exh-fwu" => enumerate(&["a", " ", "-", "é", "\x1b", "[", "m"], 6, 1, shard, nshards, |t, _| {
            emit(&["fwu".to_string(), enc::s(t)], out)
        }),
        "exh-ba" => enumerate(&["a", "-", "é", "Ｈ", "\u{301}", "\x1b[31m"], 6, 6, shard, nshards, |t, lim| {
            let w = textwrap::core::display_width(t);
            emit(&["ba".to_string(), format!("{}/_/_/{}", enc::s(t), w), lim.to_string()], out)
        }),
        "exh-wrap" => enumerate(&["a", " ", "-", "é", "Ｈ", "\n"], 5, 64, shard, nshards, |t, e| {
            let w = e % 8;
            let v = e / 8;
            let full = cfg!(feature = "full");
            let o = OptSpec {
                w,
                crlf: false,
                ii: if v & 1 == 1 { "> ".to_string() } else { String::new() },
                si: if v & 1 == 1 { "  ".to_string() } else { String::new() },
                bw: v & 2 == 2,
                alg: if full && v & 4 == 4 { Some([1000, 2500, 4, 25, 25]) } else { None },
                unicode: false,
                spl: 1,
            };
            emit(&["wrap".to_string(), o.enc(), enc::s(t)], out)
        }),
        other => {
            eprintln!("unknown exhaustive mode {}", other);
            std::process::exit(2);
        }
    }
}

/// Characters named by VERIF_EXTRA_CHARS (hex scalar values, space separated): literals that
/// the constants translator found in the source but not in the model (e.g. a new prefix
/// character).  When set, one generated case in three gets one of them substituted or
/// inserted into one of its string arguments, also right after a line break: a search
/// directed by the broken tie.  Unset on an unchanged tree.
fn extra_chars() -> &'static Vec<char> {
    static EXTRA: std::sync::OnceLock<Vec<char>> = std::sync::OnceLock::new();
    EXTRA.get_or_init(|| {
        std::env::var("VERIF_EXTRA_CHARS")
            .unwrap_or_default()
            .split_whitespace()
            .filter_map(|h| u32::from_str_radix(h, 16).ok().and_then(char::from_u32))
            .collect()
    })
}

fn inject_extra_chars(mut f: Vec<String>, r: &mut Rng) -> Vec<String> {
    let extra = extra_chars();
    if extra.is_empty() || !r.chance(1, 3) {
        return f;
    }
    let is_str = |x: &String| x == "_" || (!x.is_empty() && x.split('.').all(|h| !h.is_empty() && h.chars().all(|c| c.is_ascii_hexdigit() && !c.is_ascii_uppercase())));
    let idxs: Vec<usize> = (1..f.len()).filter(|&i| is_str(&f[i]) && !f[i].chars().all(|c| c.is_ascii_digit())).collect();
    if idxs.is_empty() {
        return f;
    }
    let i = idxs[r.below(idxs.len())];
    let mut cs: Vec<String> = if f[i] == "_" { Vec::new() } else { f[i].split('.').map(|x| x.to_string()).collect() };
    let c = format!("{:x}", extra[r.below(extra.len())] as u32);
    // positions: anywhere, with a preference for the start of a line
    let starts: Vec<usize> = std::iter::once(0).chain(cs.iter().enumerate().filter(|(_, h)| h.as_str() == "a").map(|(k, _)| k + 1)).collect();
    let pos = if r.chance(1, 2) { starts[r.below(starts.len())] } else { r.below(cs.len() + 1) };
    if r.chance(1, 2) && pos < cs.len() {
        cs[pos] = c;
    } else {
        cs.insert(pos, c);
    }
    f[i] = cs.join(".");
    f
}

/// Size targets named by VERIF_EXTRA_SIZES (decimal, space separated): integer literals the
/// current source has and the baseline copy has not (tools/harvest.py) -- a block size, a
/// cache bound, a length limit.  When set, a small share of the generated cases is built
/// around each target: that many (+-1, x1.5) words, paragraphs, lines, fragments, bytes or
/// characters inside one escape sequence.  Unset on an unchanged tree.
fn extra_sizes() -> &'static Vec<usize> {
    static SIZES: std::sync::OnceLock<Vec<usize>> = std::sync::OnceLock::new();
    SIZES.get_or_init(|| {
        std::env::var("VERIF_EXTRA_SIZES").unwrap_or_default().split_whitespace().filter_map(|x| x.parse().ok()).collect()
    })
}

fn sized_case(mode: &str, r: &mut Rng, s0: usize) -> Option<Vec<String>> {
    let n = match r.below(5) {
        0 => s0.saturating_sub(1),
        1 => s0,
        2 => s0 + 1,
        3 => s0 + s0 / 2,
        _ => s0 + r.below(4),
    }
    .max(1);
    let small = ["a", "be", "foo", "text", "wörd", "日本", "x-y", "item"];
    // many-paragraph texts are cheap for the model only with first-fit and the ASCII separator
    let many_paragraphs = std::cell::Cell::new(false);
    let sized_text = |r: &mut Rng| -> String {
        let v = if s0 > 8192 { *r.pick(&[2usize, 2, 2, 3]) } else { r.below(4) };
        many_paragraphs.set(v == 1 || v == 3);
        match v {
            // one paragraph of n words
            0 => (0..n).map(|_| r.ps(&small)).collect::<Vec<_>>().join(" "),
            // n one-line paragraphs
            1 => (0..n).map(|k| format!("item number {}", k)).collect::<Vec<_>>().join("\n"),
            // a paragraph just over n bytes, a rarer whitespace character right after the n-th byte's word
            2 => {
                let mut t = String::new();
                while t.len() + 5 <= n {
                    t.push_str("word ");
                }
                t.push_str(r.ps(&["\t", "\u{a0}", "\u{3000}", " ", "", "\u{200b}"]));
                t.push_str("foobarbaz and a few more words to wrap");
                t
            }
            // n paragraphs of a few words each (several lines per paragraph at small widths)
            _ => (0..n.min(40000)).map(|k| format!("paragraph {} of the text talks", k)).collect::<Vec<_>>().join("\n"),
        }
    };
    let sized_opts = |r: &mut Rng, t: &str| -> OptSpec {
        let mut o = gen_opts(r, "short probe");
        o.w = *r.pick(&[20usize, 36, 40, 80, 1 << 30]);
        if r.chance(1, 2) {
            o.ii = "* ".to_string();
            o.si = "  ".to_string();
        }
        o.spl = *r.pick(&[0u8, 1]);
        if many_paragraphs.get() || s0 > 8192 {
            o.alg = None;
            o.unicode = false;
        }
        let _ = t;
        o
    };
    match mode {
        "of" | "ff" => {
            let frs: Vec<String> = (0..n).map(|_| format!("{}:{}:0", r.below(7), r.below(2))).collect();
            let lws = match r.below(3) {
                0 => (n * 10).to_string(),
                1 => r.range(8, 40).to_string(),
                _ => format!("{},{}", r.range(8, 40), r.range(8, 40)),
            };
            if mode == "of" {
                Some(vec!["of".into(), frs.join(","), lws, "1000:2500:4:25:25".into()])
            } else {
                Some(vec!["ff".into(), frs.join(","), lws])
            }
        }
        "walg" => {
            let ws: Vec<String> = (0..n).map(|_| format!("{}/{}/_/2", enc::s("ab"), enc::s(" "))).collect();
            let lws = if r.chance(1, 2) { (n * 4).to_string() } else { format!("{},{}", r.range(8, 40), r.range(8, 40)) };
            let alg = if cfg!(feature = "full") && r.chance(1, 2) { "of:1000:2500:4:25:25" } else { "ff" };
            Some(vec!["walg".into(), ws.join(","), lws, alg.into()])
        }
        "wrap" | "fill" | "fill2" | "fills" | "refill" | "wrap13" => {
            let t = sized_text(r);
            let o = sized_opts(r, &t);
            Some(vec![mode.into(), o.enc(), enc::s(&t)])
        }
        "wrap9" => {
            let t = sized_text(r);
            let o = sized_opts(r, &t);
            Some(vec!["wrap9".into(), o.enc(), enc::s(&t), enc::s("tail text to wrap after it"), enc::s("other")])
        }
        "wsl" => {
            let t = sized_text(r).replace('\n', " ");
            let o = sized_opts(r, &t);
            Some(vec!["wsl".into(), o.enc(), if r.chance(1, 2) { "1" } else { "0" }.into(), enc::s(&t)])
        }
        "dw" => {
            let fill: String = match r.below(3) {
                0 => "1".repeat(n),
                1 => "1;".repeat(n / 2 + 1),
                _ => "a".repeat(n),
            };
            let t = if r.chance(1, 2) { format!("Hello\x1b]8;;{}\x1b\\, World!", fill) } else { format!("ab\x1b[{}mcd", fill.replace('a', "3")) };
            Some(vec!["dw".into(), enc::s(&t)])
        }
        "indent" => Some(vec!["indent".into(), enc::s(&sized_text(r)), enc::s("> ")]),
        "dedent" | "unfill" | "std" => Some(vec![mode.into(), enc::s(&sized_text(r))]),
        "fip" => Some(vec!["fip".into(), enc::s(&sized_text(r)), r.range(5, 60).to_string()]),
        _ => None,
    }
}

pub fn generate<W: Write>(mode: &str, r: &mut Rng, out: &mut W) {
    let sizes = extra_sizes();
    if !sizes.is_empty() {
        let s0 = sizes[r.below(sizes.len())];
        // big targets are expensive for the model: keep them rare
        let one_in = if s0 > 8192 { 1200 } else if s0 > 512 { 400 } else { 40 };
        // and bounded per process, so that a size literal in a change costs minutes at most
        static LARGE: std::sync::atomic::AtomicUsize = std::sync::atomic::AtomicUsize::new(0);
        let budget_left = s0 <= 512 || LARGE.load(std::sync::atomic::Ordering::Relaxed) < if s0 > 2048 { 1 } else { 4 };
        if budget_left && r.chance(1, one_in) {
            if s0 > 512 {
                LARGE.fetch_add(1, std::sync::atomic::Ordering::Relaxed);
            }
            if let Some(f) = sized_case(mode, r, s0) {
                emit(&f, out);
                return;
            }
        }
    }
    let f: Vec<String> = match mode {
        "dw" => {
            let t = match r.below(5) {
                0 => gen::raw_text(r, 12),
                1 => gen::text_over(r, &["a", "\x1b", "[", "]", "m", "\x07", "\\", "Ｈ", "\u{301}", "~", "\x7f"], 8),
                2 => {
                    // well-formed: plain characters and whole sequences of every kind
                    let mut t = String::new();
                    for _ in 0..r.below(8) {
                        match r.below(5) {
                            0 => t.push_str(r.ps(gen::SGR)),
                            1 => t.push_str(r.ps(gen::OTHER_SEQ)),
                            2 => t.push_str(r.ps(gen::OSC_OPEN)),
                            _ => t.push_str(r.ps(&["a", "b", " ", "é", "Ｈ", "\x7f", "\t", "\\", "]", "m", "\u{301}", "😭"])),
                        }
                    }
                    t
                }
                _ => gen::paragraph(r, 5, 2),
            };
            vec!["dw".into(), enc::s(&t)]
        }
        "wf" => {
            let mut t = gen_word(r);
            t.push_str(&" ".repeat(r.below(4)));
            vec!["wf".into(), enc::s(&t)]
        }
        "ba" => {
            let w = gen_owned_word(r);
            vec!["ba".into(), w, r.below(7).to_string()]
        }
        "bw" => {
            let n = r.below(5);
            let ws: Vec<String> = (0..n).map(|_| gen_owned_word(r)).collect();
            vec!["bw".into(), if ws.is_empty() { "~".into() } else { ws.join(",") }, r.below(7).to_string()]
        }
        "fwa" | "fwu" => {
            let t = match r.below(3) {
                // a line handed to find_words normally has no line break in it, but the function
                // is public: one case in four keeps LF / CR
                0 => {
                    let t = gen::raw_text(r, 12);
                    if r.chance(1, 4) { t } else { t.replace('\n', " ") }
                }
                1 => gen::text_over(r, &["a", " ", "-", "é", "\x1b", "[", "m", "\u{ad}", "b", "\n", "\r"], 9),
                _ => gen::paragraph(r, 6, 2),
            };
            if mode == "fwu" {
                vec!["fwu".into(), enc::s(&t)]
            } else {
                vec!["fwa".into(), enc::s(&t)]
            }
        }
        "hp" => {
            let t = match r.below(3) {
                0 => gen::text_over(r, &["a", "-", "é", "1", "_", "Ｈ", "\u{301}", " ", "²", "٣", "½", "５", "①"], 9),
                _ => gen_word(r),
            };
            vec!["hp".into(), enc::s(&t)]
        }
        "sw" => {
            let n = r.below(4);
            let ws: Vec<String> = (0..n).map(|_| gen_owned_word(r)).collect();
            vec![
                "sw".into(),
                r.pick(&["n", "h", "h", "c"]).to_string(),
                if ws.is_empty() { "~".into() } else { ws.join(",") },
            ]
        }
        "walg" => {
            let n = r.below(14);
            let ws: Vec<String> = (0..n).map(|_| gen_owned_word(r)).collect();
            let nl = r.range(1, 5);
            let lws: Vec<String> = (0..nl)
                .map(|_| match r.below(8) {
                    0 => 0usize,
                    1 => r.range(20, 60),
                    _ => r.range(1, 16),
                })
                .map(|x| x.to_string())
                .collect();
            // repeated neighbouring widths on purpose
            let lws: Vec<String> = if r.chance(1, 3) && lws.len() >= 2 {
                let mut v = lws.clone();
                v[1] = v[0].clone();
                v
            } else {
                lws
            };
            let alg = if cfg!(feature = "full") && r.chance(1, 2) {
                if r.chance(2, 3) { "of:1000:2500:4:25:25".to_string() } else { format!("of:{}:{}:{}:{}:{}", r.below(2000), r.below(5000), r.below(8), r.below(100), r.below(100)) }
            } else {
                "ff".to_string()
            };
            vec!["walg".into(), if ws.is_empty() { "~".into() } else { ws.join(",") }, lws.join(","), alg]
        }
        "ff" => {
            let frac = r.chance(1, 3);
            let neg = r.chance(1, 6);
            TINY_OK.store(true, std::sync::atomic::Ordering::Relaxed);
            let v = vec!["ff".into(), gen_frags(r, 40, frac, neg), gen_lws(r, frac, 5)];
            TINY_OK.store(false, std::sync::atomic::Ordering::Relaxed);
            v
        }
        "of" => {
            let frac = r.chance(1, 5);
            let pen = if r.chance(2, 3) {
                "1000:2500:4:25:25".to_string()
            } else {
                format!("{}:{}:{}:{}:{}", r.below(2000), r.below(5000), r.below(8), r.below(100), r.below(100))
            };
            vec!["of".into(), gen_frags(r, 60, frac, false), gen_lws(r, frac, 2), pen]
        }
        "wrap" | "fill" | "fill2" | "fills" | "refill" => {
            let crlf = r.chance(1, 4);
            let t = gen::any_text(r, crlf);
            let mut o = gen_opts(r, &t);
            o.crlf = crlf || r.chance(1, 10);
            if mode == "fill2" && r.chance(3, 4) {
                // the property's option domain: empty indents, built-in splitters
                o.ii = String::new();
                o.si = String::new();
                if o.spl == 2 {
                    o.spl = 1;
                }
            }
            if mode == "fills" && r.chance(1, 2) {
                // the shortcut's own condition: one paragraph, shorter in bytes than the width,
                // no initial indent -- so that both code paths are compared, not one with itself
                let t1 = t.replace("\r\n", " ").replace('\n', " ");
                o.ii = String::new();
                o.w = t1.len() + 1 + r.below(4);
                return_case(vec![mode.into(), o.enc(), enc::s(&t1)], r, out);
                return;
            }
            vec![mode.into(), o.enc(), enc::s(&t)]
        }
        "wsl" => {
            let t = match r.below(3) {
                0 => gen::raw_text(r, 12).replace('\n', ""),
                _ => {
                    let a = r.below(3);
                    gen::paragraph(r, 8, a)
                }
            };
            let mut o = gen_opts(r, &t);
            // widths from the display width upward, around the byte length
            if r.chance(2, 3) {
                let d = textwrap::core::display_width(&t);
                o.w = r.range(d.saturating_sub(1), t.len().max(d) + 2);
            }
            if r.chance(1, 3) {
                // the shortcut's own condition: byte length below the width, empty indents
                o.ii = String::new();
                o.si = String::new();
                o.w = t.len() + 1 + r.below(3);
            }
            vec!["wsl".into(), o.enc(), if r.chance(1, 2) { "1" } else { "0" }.into(), enc::s(&t)]
        }
        "fip" => {
            let t = match r.below(3) {
                0 => gen::text_over(r, &["a", " ", "é", "\n", "b", "  "], 12),
                1 => gen::raw_text(r, 12),
                _ => gen::structured_text(r, 3, 8, 0, false),
            };
            let w = gen::width_for(r, &t);
            vec!["fip".into(), enc::s(&t), w.to_string()]
        }
        "unfill" => {
            let t = match r.below(3) {
                0 => gen::raw_text(r, 14),
                1 => gen::text_over(r, &["a", " ", "\n", "\r\n", "> ", "-", "*", "#", "\r", "b", "/"], 12),
                _ => {
                    let crlf = r.chance(1, 3);
                    let p = gen::paragraph(r, 10, 0);
                    let mut o = gen_opts(r, &p);
                    o.ii = r.pick(gen::PREFIX_INDENTS).to_string();
                    o.si = r.pick(gen::PREFIX_INDENTS).to_string();
                    o.crlf = crlf;
                    guarded(|| textwrap::fill(&p, o.options()))
                }
            };
            vec!["unfill".into(), enc::s(&t)]
        }
        "indent" => {
            let t = match r.below(2) {
                0 => gen::text_over(r, &["a", " ", "\t", "\n", "\r\n", "\u{a0}", "b", "\n\n", "\x1b[1m", "\u{200b}", "\n\x1b[0m\n", "\u{301}"], 10),
                _ => {
                    let c = r.chance(1, 3);
                    gen::structured_text(r, 4, 4, 0, c)
                }
            };
            let p = match r.below(4) {
                0 => String::new(),
                1 => gen::text_over(r, &[" ", "\t", ">", "a", "\u{a0}", "\n"], 4),
                _ => r.pick(gen::INDENTS).to_string(),
            };
            vec!["indent".into(), enc::s(&t), enc::s(&p)]
        }
        "dedent" => {
            let t = match r.below(3) {
                0 => gen::text_over(r, &[" ", "\t", "\u{a0}", "a", "\n", "  ", "\r\n", "\r", "\u{2003}", "\u{2002}", "\u{ad}", "\u{85}", "\u{3000}", "\n"], 12),
                1 => {
                    // indented block with blank lines of various shapes
                    let margin = gen::text_over(r, &[" ", " ", "\t", "\u{a0}", "\u{2003}", "\u{3000}"], 4);
                    let n = r.range(1, 5);
                    let mut s = String::new();
                    for i in 0..n {
                        if i > 0 {
                            s.push('\n');
                        }
                        match r.below(5) {
                            0 => s.push_str(&gen::text_over(r, &[" ", "\t", "\u{a0}"], 5)),
                            1 => {
                                let k = r.below(margin.chars().count() + 1);
                                s.extend(margin.chars().take(k));
                                s.push_str(r.ps(gen::VOCAB));
                            }
                            _ => {
                                s.push_str(&margin);
                                s.push_str(&gen::text_over(r, &[" ", "\t"], 2));
                                s.push_str(r.ps(gen::VOCAB));
                            }
                        }
                    }
                    if r.chance(1, 2) {
                        s.push('\n');
                    }
                    s
                }
                _ => {
                    let c = r.chance(1, 3);
                    gen::structured_text(r, 4, 4, 0, c)
                }
            };
            vec!["dedent".into(), enc::s(&t)]
        }
        "wc" => {
            let t = gen::any_text(r, false);
            let mut o = gen_opts(r, &t);
            o.w = match r.below(8) {
                0 => r.below(4),
                1 => *r.pick(&[63usize, 64, 65, 127, 128, 129, 130, 131, 140, 200, 257, 300, 400]),
                _ => r.below(60),
            };
            let gaps = ["", "", " ", "| ", " | ", " |", "Ｈ", "é", "--", "  ", "\x1b[1m|\x1b[0m", "|\x1b", "\x1b[", "\u{200b}"];
            let cols = r.range(1, 5);
            vec![
                "wc".into(),
                o.enc(),
                enc::s(&t),
                cols.to_string(),
                enc::s(r.ps(&gaps)),
                enc::s(r.ps(&gaps)),
                enc::s(r.ps(&gaps)),
            ]
        }
        "api" => vec!["api".into(), (if cfg!(feature = "full") { "full" } else { "min" }).into()],
        "std" => {
            let t = match r.below(3) {
                0 => gen::text_over(r, &["a", " ", "\n", "\r", "\r\n", "\t", "\u{a0}", "\u{2028}", "\u{85}", "é", "\u{3000}", "\x0b", "\x0c"], 10),
                1 => gen::raw_text(r, 12),
                _ => gen::structured_text(r, 4, 4, 0, true),
            };
            vec!["std".into(), enc::s(&t)]
        }
        "ofu" => {
            // usize-valued widths and penalties over the whole usize range: optimal-fit must
            // not report an overflow error (C04)
            let big = |r: &mut Rng| -> u64 {
                match r.below(5) {
                    0 => u64::MAX,
                    1 => r.next(),
                    2 => 1u64 << r.below(64),
                    _ => r.below(40) as u64,
                }
            };
            let num = |r: &mut Rng| format!("x{:016x}", (big(r) as f64).to_bits());
            let n = r.below(12);
            let frs: Vec<String> = (0..n).map(|_| format!("{}:{}:{}", num(r), num(r), num(r))).collect();
            let nl = r.range(1, 2);
            let lws: Vec<String> = (0..nl).map(|_| num(r)).collect();
            let pen = |r: &mut Rng| if r.chance(1, 3) { big(r) as usize } else { r.below(3000) };
            vec![
                "ofu".to_string(),
                if frs.is_empty() { "~".into() } else { frs.join(",") },
                lws.join(","),
                format!("{}:{}:{}:{}:{}", pen(r), pen(r), pen(r), pen(r), pen(r)),
            ]
        }
        "ffx" | "ofx" => {
            // arbitrary doubles, non-finite included: no-panic and shape only
            let special: [u64; 10] = [
                0x7ff0000000000000, 0xfff0000000000000, 0x7ff8000000000000, 0x8000000000000000, 0x0000000000000000,
                0x7fefffffffffffff, 0x7fe1ccf385ebc8a0, 0x3ff0000000000000, 0x4340000000000000, 0x0000000000000001,
            ];
            let num = |r: &mut Rng| -> String {
                match r.below(4) {
                    0 => format!("x{:016x}", special[r.below(special.len())]),
                    1 => format!("x{:016x}", r.next()),
                    _ => r.below(12).to_string(),
                }
            };
            let n = r.below(9);
            let frs: Vec<String> = (0..n).map(|_| format!("{}:{}:{}", num(r), num(r), num(r))).collect();
            let nl = r.below(4);
            let lws: Vec<String> = (0..nl).map(|_| num(r)).collect();
            let mut f = vec![
                mode.to_string(),
                if frs.is_empty() { "~".into() } else { frs.join(",") },
                if lws.is_empty() { "~".into() } else { lws.join(",") },
            ];
            if mode == "ofx" {
                f.push(format!("{}:{}:{}:{}:{}", r.below(3000), r.below(3000), r.below(6), r.below(50), r.below(50)));
            }
            f
        }
        "wrap8" => {
            let crlf = r.chance(1, 5);
            let t = gen::any_text(r, crlf);
            let mut o = gen_opts(r, &t);
            o.crlf = crlf;
            // indents from a set closed under a width- and emptiness-preserving substitution
            let pool = ["", "> ", "- ", "  ", "é ", "Ｈ", "//", "* ", "    ", ">>> ", "\u{200b}", "\t"];
            o.ii = r.ps(&pool).to_string();
            o.si = if r.chance(1, 2) { o.ii.clone() } else { r.ps(&pool).to_string() };
            let sub = |x: &str| -> String {
                x.chars()
                    .map(|c| match c {
                        '>' => '#',
                        '-' => '*',
                        '*' => '-',
                        ' ' => 'x',
                        'é' => 'a',
                        'Ｈ' => '字',
                        '/' => '+',
                        '\u{200b}' => '\u{2060}',
                        '\t' => '\u{1}',
                        c => c,
                    })
                    .collect()
            };
            // sometimes substitute only one of the two indents, so that "the two indents are the
            // same string" differs between the two runs while widths and emptiness agree
            let (ii2, si2) = match r.below(3) {
                0 => (sub(&o.ii), o.si.clone()),
                1 => (o.ii.clone(), sub(&o.si)),
                _ => (sub(&o.ii), sub(&o.si)),
            };
            vec!["wrap8".into(), o.enc(), enc::s(&ii2), enc::s(&si2), enc::s(&t)]
        }
        "wrap9" => {
            let a = gen::any_text(r, false);
            let b = gen::any_text(r, false);
            let a2 = match r.below(3) {
                0 => String::new(),
                1 => "x".to_string(),
                _ => gen::any_text(r, false),
            };
            let mut o = gen_opts(r, &b);
            if r.chance(1, 2) {
                o.ii = String::new();
                o.si = String::new();
            }
            vec!["wrap9".into(), o.enc(), enc::s(&a), enc::s(&b), enc::s(&a2)]
        }
        "wrap13" => {
            let t = if r.chance(5, 6) {
                gen::structured_text(r, 2, 9, 1, false)
            } else {
                gen::structured_text(r, 2, 9, 2, false)
            };
            let t = if t.contains('\x1b') || t.trim().is_empty() {
                t
            } else {
                // colour one word
                let mut ws: Vec<String> = t.split(' ').map(|x| x.to_string()).collect();
                let idxs: Vec<usize> = (0..ws.len()).filter(|&i| !ws[i].is_empty() && !ws[i].contains('\n')).collect();
                if !idxs.is_empty() {
                    let i = idxs[r.below(idxs.len())];
                    ws[i] = format!("{}{}{}", r.ps(gen::SGR), ws[i], "\x1b[0m");
                }
                ws.join(" ")
            };
            let mut o = gen_opts(r, &gen::display_width_probe(&t));
            if r.chance(2, 3) {
                o.ii = String::new();
                o.si = String::new();
            }
            if o.spl == 2 && r.chance(5, 6) {
                o.spl = *r.pick(&[0u8, 1]);
            }
            vec!["wrap13".into(), o.enc(), enc::s(&t)]
        }
        "unfill15" | "refill16" => {
            let pool = ["a", "be", "foo", "bar", "baz", "text", "wrapping", "hello", "world!", "x1", "naïve", "日本", "e\u{301}", "end.", "(q)", "it's", "Z", "co-op", "a-b-c",
                // words ending in a hyphen, double-width words, emoji, zero-width characters inside words
                "pre-", "3-", "tail-", "안녕하세요", "세계", "Ｈｉ", "😀", "x\u{200b}z", "q\u{ad}r", "ß", "“q”", "1,5", "a—"];
            let n = r.range(1, 12);
            let words: Vec<String> = (0..n).map(|_| r.ps(&pool).to_string()).collect();
            let para = words.join(" ");
            let mk = |r: &mut Rng| {
                let mut o = gen_opts(r, &para);
                o.ii = r.ps(gen::PREFIX_INDENTS).to_string();
                o.si = r.ps(gen::PREFIX_INDENTS).to_string();
                o.spl = 0;
                o.bw = false;
                o.unicode = false;
                if o.w > 1000 {
                    o.w = 30;
                }
                if r.chance(1, 2) {
                    o.w = r.range(2, 24);
                }
                o
            };
            let o1 = mk(r);
            let tail = if r.chance(1, 3) { "1" } else { "0" };
            if mode == "unfill15" {
                vec!["unfill15".into(), o1.enc(), enc::strs(&words), tail.into()]
            } else {
                let o2 = mk(r);
                vec!["refill16".into(), o1.enc(), o2.enc(), enc::strs(&words), tail.into()]
            }
        }
        "dedent18" => {
            let mut f = Vec::new();
            // reuse the dedent generator for the text
            let t = {
                let margin = gen::text_over(r, &[" ", " ", "\t", "\u{a0}"], 4);
                let n = r.range(1, 5);
                let mut s = String::new();
                for i in 0..n {
                    if i > 0 {
                        s.push_str(if r.chance(1, 8) { "\r\n" } else { "\n" });
                    }
                    match r.below(6) {
                        0 => s.push_str(&gen::text_over(r, &[" ", "\t", "\u{a0}"], 5)),
                        1 => {
                            let k = r.below(margin.chars().count() + 1);
                            s.extend(margin.chars().take(k));
                            // sometimes a sibling character sharing UTF-8 lead bytes with the margin's
                            if r.chance(1, 3) {
                                s.push_str(r.ps(&["\u{2002}", "\u{ad}", "\u{85}", "\u{3001}", "\u{a1}"]));
                            }
                            s.push_str(line_content(r));
                        }
                        2 => s.push_str(&gen::text_over(r, &[" ", "\t", "a", "\r", "b"], 5)),
                        _ => {
                            s.push_str(&margin);
                            s.push_str(&gen::text_over(r, &[" ", "\t"], 2));
                            s.push_str(line_content(r));
                        }
                    }
                }
                if r.chance(1, 2) {
                    s.push('\n');
                }
                s
            };
            let p = gen::text_over(r, &[" ", "\t", "\u{a0}", "  ", "\u{3000}"], 3);
            f.push("dedent18".to_string());
            f.push(enc::s(&t));
            f.push(enc::s(&p));
            f
        }
        other => {
            eprintln!("unknown mode {}", other);
            std::process::exit(2);
        }
    };
    return_case(f, r, out);
}

fn return_case<W: Write>(f: Vec<String>, r: &mut Rng, out: &mut W) {
    let f = inject_extra_chars(f, r);
    emit(&f, out);
}
