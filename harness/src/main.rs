//! Runs the implementation (built from /repo's working tree) on generated cases and
//! prints one canonical line per case:  op \t args... \t => \t result
mod enc;
mod gen;
mod ops;

use std::io::Write;
use std::sync::atomic::{AtomicU64, Ordering};
use std::sync::Mutex;

pub static CASE_START_MS: AtomicU64 = AtomicU64::new(0);

/// All output goes through one buffered writer behind a mutex that is held only while
/// bytes are written, never while a case runs: the watchdog can therefore always append
/// its HANG line after the complete lines written so far, flush, and exit.
static OUT: Mutex<Option<std::io::BufWriter<std::io::Stdout>>> = Mutex::new(None);

struct SharedOut;
impl Write for SharedOut {
    fn write(&mut self, buf: &[u8]) -> std::io::Result<usize> {
        let mut g = OUT.lock().unwrap();
        g.get_or_insert_with(|| std::io::BufWriter::new(std::io::stdout())).write(buf)
    }
    fn flush(&mut self) -> std::io::Result<()> {
        let mut g = OUT.lock().unwrap();
        g.get_or_insert_with(|| std::io::BufWriter::new(std::io::stdout())).flush()
    }
}
pub static CURRENT: Mutex<String> = Mutex::new(String::new());

/// milliseconds of a monotonic clock (a wall-clock jump must not look like a hang)
fn now_ms() -> u64 {
    static START: std::sync::OnceLock<std::time::Instant> = std::sync::OnceLock::new();
    START.get_or_init(std::time::Instant::now).elapsed().as_millis() as u64 + 1
}

pub fn begin_case(desc: &str) {
    *CURRENT.lock().unwrap() = desc.to_string();
    CASE_START_MS.store(now_ms(), Ordering::SeqCst);
}
pub fn end_case() {
    CASE_START_MS.store(0, Ordering::SeqCst);
}

fn main() {
    let args: Vec<String> = std::env::args().collect();
    if args.len() < 2 {
        eprintln!("usage: tw-harness <mode> [seed] [count] | tables <cwfile> <alnumfile> | replay <file>");
        std::process::exit(2);
    }
    std::panic::set_hook(Box::new(|_| {}));
    // watchdog: a case that runs for more than 20 s is reported as HANG
    std::thread::spawn(|| loop {
        std::thread::sleep(std::time::Duration::from_millis(200));
        let st = CASE_START_MS.load(Ordering::SeqCst);
        if st != 0 && now_ms() > st + 20_000 {
            let cur = CURRENT.lock().unwrap().clone();
            let mut o = SharedOut;
            writeln!(o, "{}\t@lbc\t-\t@rec\t-\t=>\tHANG", cur).ok();
            o.flush().ok();
            std::process::exit(3);
        }
    });
    let mode = args[1].as_str();
    let mut out = SharedOut;
    match mode {
        "tables" => ops::tables(&args[2], &args[3]),
        "features" => {
            writeln!(out, "{}", if cfg!(feature = "full") { "full" } else { "min" }).unwrap();
        }
        "replay" => {
            // re-run the implementation on the inputs of the given case lines
            let content = std::fs::read_to_string(&args[2]).expect("replay file");
            for line in content.lines() {
                if line.starts_with('#') || line.trim().is_empty() {
                    continue;
                }
                let fields: Vec<&str> = line.split('\t').collect();
                let cut = fields.iter().position(|f| *f == "=>").unwrap_or(fields.len());
                let cut = fields.iter().position(|f| *f == "@lbc").unwrap_or(cut).min(cut);
                // cases that need the Unicode separator or optimal-fit are skipped by the
                // build without those features
                if !cfg!(feature = "full")
                    && (fields[0] == "fwu"
                        || fields[0] == "of"
                        || fields[..cut].iter().any(|f| f.matches(';').count() == 7 && (f.contains(";u;") || f.contains(";of:"))))
                {
                    continue;
                }
                // a malformed line (the local search mutates fields blindly) is skipped
                let mut buf: Vec<u8> = Vec::new();
                let ok = std::panic::catch_unwind(std::panic::AssertUnwindSafe(|| {
                    ops::replay(&fields[..cut], &mut buf);
                }))
                .is_ok();
                end_case();
                if ok {
                    out.write_all(&buf).unwrap();
                } else {
                    writeln!(out, "# skipped malformed case").unwrap();
                }
            }
        }
        m if m.starts_with("exh-") => {
            let shard: usize = args.get(2).and_then(|s| s.parse().ok()).unwrap_or(0);
            let nshards: usize = args.get(3).and_then(|s| s.parse().ok()).unwrap_or(1);
            ops::exhaustive(m, shard, nshards, &mut out);
        }
        _ => {
            let parse = |i: usize, what: &str| -> u64 {
                match args.get(i).map(|s| s.parse::<u64>()) {
                    Some(Ok(v)) => v,
                    _ => {
                        eprintln!("{} must be an unsigned integer", what);
                        std::process::exit(2);
                    }
                }
            };
            let seed: u64 = parse(2, "seed");
            let count: usize = parse(3, "count") as usize;
            let mut rng = gen::Rng::new(seed ^ ops::mode_salt(mode));
            for _ in 0..count {
                ops::generate(mode, &mut rng, &mut out);
            }
        }
    }
    out.flush().unwrap();
}
