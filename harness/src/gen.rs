//! Deterministic generators. Every random choice comes from one xorshift state.

pub struct Rng(pub u64);

impl Rng {
    pub fn new(seed: u64) -> Rng {
        let mut r = Rng(seed.wrapping_mul(0x9E3779B97F4A7C15) ^ 0xD1B54A32D192ED03);
        if r.0 == 0 {
            r.0 = 0x2545F4914F6CDD1D;
        }
        for _ in 0..4 {
            r.next();
        }
        r
    }
    pub fn next(&mut self) -> u64 {
        let mut x = self.0;
        x ^= x >> 12;
        x ^= x << 25;
        x ^= x >> 27;
        self.0 = x;
        x.wrapping_mul(0x2545F4914F6CDD1D)
    }
    pub fn below(&mut self, n: usize) -> usize {
        if n == 0 {
            0
        } else {
            (self.next() >> 11) as usize % n
        }
    }
    pub fn range(&mut self, lo: usize, hi: usize) -> usize {
        lo + self.below(hi - lo + 1)
    }
    pub fn chance(&mut self, num: usize, den: usize) -> bool {
        self.below(den) < num
    }
    pub fn ps<'a>(&mut self, xs: &[&'a str]) -> &'a str {
        xs[self.below(xs.len())]
    }
    pub fn pick<'a, T>(&mut self, xs: &'a [T]) -> &'a T {
        &xs[self.below(xs.len())]
    }
}

pub const RAW: &[&str] = &[
    "a", "b", "c", "x", " ", " ", " ", "-", "-", "é", "Ｈ", "😂", "\u{301}", "\u{200b}", "\u{2060}",
    "\u{a0}", "\u{ad}", "\t", "\r", "\n", "\x1b", "[", "]", "\x07", "\\", "m", "1", ";", "/", ">",
    "#", "*", "+", "(", ")", "\x1b[", "\x1b]", "\x1b[1m", "\x1b[1 q", "\x1b\\", "\r\n", "  ", "字",
    "。", "\u{2028}", "\u{85}", "\u{3000}", "0", "Z", ".", ",", "!",
    // control characters, and characters whose UTF-8 encodings share lead bytes or end in
    // bytes that look like ASCII/Latin-1 code points (0xAD, 0xA0, 0x85)
    "\x7f", "\x0b", "\x0c", "\x00", "😭", "中", "í", "ね", "\u{2003}", "\u{2002}", "\u{2d}", "~", "@", "`",
    "\x1b[1~", "\x1b[2@", "\x1b]0;C:\\tmp\x07",
    // joiners, modifiers, selectors: sequences whose string width differs from the per-char sum
    "\u{200d}", "\u{1f3fd}", "\u{fe0f}", "👍", "👩", "💻", "\u{644}", "\u{627}", "\u{1f1e9}", "\u{1f1ea}", "\x1b[4:3m", ":", "?", "!",
    // numeric but not ASCII-alphanumeric / not alphabetic; C1 controls (U+009C is the 8-bit ST)
    "²", "½", "①", "٣", "５", "\u{9c}", "\u{9b}", "\u{9d}", "\u{90}",
];

pub const VOCAB: &[&str] = &[
    "a", "I", "to", "be", "or", "not", "the", "foo", "bar", "baz", "text", "wrap", "hello", "world",
    "memory", "safety", "without", "garbage", "collection", "self-contained", "co-op", "x-ray-y",
    "--flag", "a-", "-b", "re-", "naïve", "café", "Ｈｅｌｌｏ", "日本語", "😂😭", "e\u{301}x", "zero\u{200b}width",
    "extraordinarily", "supercalifragilistic", "1-2-3", "it's", "end.", "(see)", "a/b", "0", "Z9-Z9",
    "中中中", "😭😭", "rí-o", "café-olé", "中-文", "tab\tbed", "x\ry", "del\x7f", "pre-", "ね-ね",
    // words the Unicode separator keeps together although they contain a space; ZWJ and
    // modifier sequences; ligatures; soft hyphens inside words
    "what ?!", "a )", "[ foo ]", "Bonjour !", "👩\u{200d}💻", "👍\u{1f3fd}", "ab\u{200d}cd", "\u{644}\u{627}\u{644}\u{627}", "❤\u{fe0f}",
    "Zusammen\u{ad}arbeit", "🇩🇪🇩🇪",
    // hyphens next to non-ASCII digits and numbers
    "x²-y²", "١٢٣٤-٥٦٧٨", "５-６", "½-①",
];

pub const SGR: &[&str] = &[
    "\x1b[31m", "\x1b[0m", "\x1b[1;34m", "\x1b[m", "\x1b[38;5;196m", "\x1b[4:3m", "\x1b[38:5:208m",
    // long parameter strings (more than 32 and more than 64 bytes)
    "\x1b[38;2;255;128;64;48;2;255;255;255m",
    "\x1b[1;2;3;4;5;6;7;8;9;10;11;12;13;14;15;16;17;18;19;20;21;22;23;24;25;26;27;28;29;30m",
];
/// well-formed CSI sequences whose final byte is not a letter, OSC with a backslash in the payload
pub const OTHER_SEQ: &[&str] = &["\x1b[1~", "\x1b[2@", "\x1b[5`", "\x1b]0;C:\\tmp\x07", "\x1b]8;;file://C:\\x\x1b\\"];
pub const OSC_OPEN: &[&str] = &[
    "\x1b]8;;http://example.com\x1b\\",
    "\x1b]8;;http://example.com\x07",
    "\x1b]8;;x\x1b\\",
];
pub const OSC_CLOSE: &[&str] = &["\x1b]8;;\x1b\\", "\x1b]8;;\x07"];
/// sequences that contain a space or an alnum-hyphen-alnum (the D6 class)
pub const OSC_NASTY: &[&str] = &[
    "\x1b]8;;http://my-site.com\x1b\\", "\x1b]8;;a b\x07", "\x1b[1 q", "\x1b[1~", "\x1b[2@", "\x1b]0;C:\\tmp\x07",
    "\x1b]8;;file://C:\\x\x1b\\",
];

pub const INDENTS: &[&str] = &[
    "", "", "", " ", "  ", "    ", "> ", "- ", "* ", "//", "# ", "+", ">> ", "        ", "Ｈ", "é ", "-",
    "\x1b[1m> ", "\t", "\u{200b}",
];
pub const PREFIX_INDENTS: &[&str] = &["", "", " ", "  ", "> ", "- ", "* ", "// ", "# ", "+ ", ">> ", "    ", "-", "  * "];

pub fn raw_text(r: &mut Rng, maxlen: usize) -> String {
    let n = r.below(maxlen + 1);
    let mut s = String::new();
    for _ in 0..n {
        s.push_str(r.ps(RAW));
    }
    s
}

/// alphabet-restricted raw text
pub fn text_over(r: &mut Rng, alphabet: &[&str], maxlen: usize) -> String {
    let n = r.below(maxlen + 1);
    let mut s = String::new();
    for _ in 0..n {
        s.push_str(r.ps(alphabet));
    }
    s
}

fn decorate(r: &mut Rng, w: &str, nasty: bool) -> String {
    match r.below(if nasty { 5 } else { 4 }) {
        0 => format!("{}{}{}", r.pick(SGR), w, r.pick(SGR)),
        1 => format!("{}{}", r.pick(SGR), w),
        2 => format!("{}{}{}", r.pick(OSC_OPEN), w, r.pick(OSC_CLOSE)),
        3 => {
            // sequence inside the word, at a char boundary
            let cs: Vec<char> = w.chars().collect();
            let k = r.below(cs.len() + 1);
            let a: String = cs[..k].iter().collect();
            let b: String = cs[k..].iter().collect();
            format!("{}{}{}", a, r.pick(SGR), b)
        }
        _ => format!("{}{}{}", r.pick(OSC_NASTY), w, r.pick(OSC_CLOSE)),
    }
}

/// One paragraph of vocabulary words; `ansi` in 0..=2 (none / attached well-formed / also nasty)
pub fn paragraph(r: &mut Rng, maxwords: usize, ansi: usize) -> String {
    let n = r.below(maxwords + 1);
    let mut s = String::new();
    if r.chance(1, 8) {
        s.push_str(&" ".repeat(r.range(1, 3)));
    }
    for i in 0..n {
        if i > 0 {
            match r.below(12) {
                0 => s.push_str("  "),
                1 => s.push_str("   "),
                2 => s.push('\u{a0}'),
                3 => s.push('\t'),
                _ => s.push(' '),
            }
        }
        let w = *r.pick(VOCAB);
        if ansi > 0 && r.chance(1, 3) {
            s.push_str(&decorate(r, w, ansi > 1));
        } else {
            s.push_str(w);
        }
    }
    if r.chance(1, 8) {
        s.push_str(&" ".repeat(r.range(1, 3)));
    }
    s
}

pub fn structured_text(r: &mut Rng, maxparas: usize, maxwords: usize, ansi: usize, crlf: bool) -> String {
    let np = r.range(1, maxparas.max(1));
    let mut s = String::new();
    for i in 0..np {
        if i > 0 {
            if crlf && r.chance(3, 4) {
                s.push_str("\r\n");
            } else {
                s.push('\n');
            }
        }
        if r.chance(1, 10) {
            // empty or blank paragraph
            s.push_str(&" ".repeat(r.below(3)));
        } else {
            s.push_str(&paragraph(r, maxwords, ansi));
        }
    }
    if r.chance(1, 10) {
        s.push_str(if crlf { "\r\n" } else { "\n" });
    }
    s
}

/// mixture of structured and raw texts
pub fn any_text(r: &mut Rng, crlf: bool) -> String {
    if r.chance(1, 500) {
        // a long paragraph: a hundred words or so, several hundred bytes
        let ansi = r.below(2);
        let n = r.range(40, 130);
        return paragraph(r, n, ansi);
    }
    match r.below(10) {
        0..=4 => {
            let ansi = [0, 0, 1, 2][r.below(4)];
            structured_text(r, 3, 8, ansi, crlf)
        }
        5..=6 => {
            let a = r.below(3);
            structured_text(r, 1, 12, a, crlf)
        }
        7 => text_over(r, &["a", " ", "-", "é", "Ｈ", "\n"], 10),
        _ => raw_text(r, 14),
    }
}

pub fn display_width_simple(s: &str) -> usize {
    textwrap::core::display_width(s)
}

pub fn width_for(r: &mut Rng, text: &str) -> usize {
    let bl = text.len();
    let dwv = display_width_simple(text);
    match r.below(20) {
        0 => 0,
        1 => 1,
        2 => 2,
        3..=9 => r.range(3, 20),
        10 => bl,
        11 => bl + 1,
        12 => bl.saturating_sub(1),
        13 => dwv,
        14 => dwv + 1,
        15 => dwv.saturating_sub(1),
        16 => r.range(dwv, bl.max(dwv) + 2),
        17 => {
            let mid = r.range(20, 80);
            *r.pick(&[mid, mid, mid, 63, 64, 65, 127, 128, 129, 130, 131, 255, 256, 257, 400])
        }
        18 => *r.pick(&[usize::MAX, usize::MAX - 1, 1 << 53, (1 << 53) + 1, (1 << 53) - 1, 1 << 32, 1000]),
        _ => r.range(1, 12),
    }
}

/// a string whose byte length / display width make `width_for` cluster around the text's
pub fn display_width_probe(t: &str) -> String {
    t.to_string()
}
