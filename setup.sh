#!/bin/sh
# Builds the whole framework from files on disk (offline): harness (both feature
# sets) against /repo's working tree, the tables, the Coq development, the driver.
set -e
cd "$(dirname "$0")"
export CARGO_NET_OFFLINE=true
mkdir -p work evidence replays
[ -f harness/Cargo.lock ] || cp /repo/Cargo.lock harness/Cargo.lock
(cd harness && cargo build --offline --quiet --target-dir target && cargo build --offline --quiet --no-default-features --target-dir target-min)
harness/target/debug/tw-harness tables work/cw.tbl work/alnum.tbl
harness/target-min/debug/tw-harness tables work/cw-min.tbl work/alnum-min.tbl
python3 tools/gen_width_table.py work/cw.tbl coq/gen/WidthTable.v
python3 tools/gen_src_consts.py
(cd coq && coq_makefile -f _CoqProject -o Makefile && make -j16) > work/coq-build.log 2>&1 || { tail -50 work/coq-build.log; exit 1; }
sh ocaml/build.sh
echo setup done
