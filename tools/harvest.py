#!/usr/bin/env python3
"""Literals that the CURRENT source of /repo has and the baseline copy (/verif/baseline/src,
the tree the model was written against) has not: integers (also `1 << k`, hex) become size
targets for the generators (work/extra_sizes.txt -> VERIF_EXTRA_SIZES), character literals are
added to work/extra_chars.txt.  Only directs the search; verdicts come from running /repo."""
import os, re, sys, collections
ROOT = os.path.dirname(os.path.dirname(os.path.abspath(__file__)))
REPO = os.environ.get("VERIF_REPO", "/repo")

def code_of(path):
    src = open(path, errors="replace").read()
    src = re.sub(r"//[^\n]*", "", src)                # comments (doc examples included)
    i = src.find("#[cfg(test)]\nmod tests")
    return src[:i] if i >= 0 else src

def literals(src):
    ints = collections.Counter()
    for m in re.finditer(r"\b1\s*<<\s*(\d+)\b", src):
        ints[1 << int(m.group(1))] += 1
    for m in re.finditer(r"\b0x([0-9a-fA-F_]+)\b", src):
        ints[int(m.group(1).replace("_", ""), 16)] += 1
    for m in re.finditer(r"(?<![\w.])(\d[\d_]*)(?:usize|u32|u64|i64|i32)?\b(?!\.\d)", src):
        ints[int(m.group(1).replace("_", ""))] += 1
    chars = collections.Counter()
    for m in re.finditer(r"'(\\x[0-9a-fA-F]{2}|\\u\{[0-9a-fA-F]+\}|\\[nrt0\\']|[^'\\])'", src):
        c = m.group(1)
        if c.startswith("\\x"): v = int(c[2:], 16)
        elif c.startswith("\\u{"): v = int(c[3:-1], 16)
        elif c.startswith("\\"): v = {"n": 10, "r": 13, "t": 9, "0": 0, "\\": 92, "'": 39}[c[1]]
        else: v = ord(c)
        chars[v] += 1
    return ints, chars

sizes, chars = set(), set()
base = os.path.join(ROOT, "baseline", "src")
for dp, _, fs in os.walk(os.path.join(REPO, "src")):
    for f in fs:
        if not f.endswith(".rs"):
            continue
        cur = os.path.join(dp, f)
        rel = os.path.relpath(cur, os.path.join(REPO, "src"))
        old = os.path.join(base, rel)
        ci, cc = literals(code_of(cur))
        oi, oc = literals(code_of(old)) if os.path.exists(old) else (collections.Counter(), collections.Counter())
        for v, n in ci.items():
            if n > oi.get(v, 0) and 16 <= v <= 8192:   # larger inputs take the model minutes per case
                sizes.add(v)
        for v, n in cc.items():
            if n > oc.get(v, 0):
                chars.add(v)
w = os.path.join(ROOT, "work")
if os.path.isdir(w):
    open(os.path.join(w, "extra_sizes.txt"), "w").write(" ".join(str(v) for v in sorted(sizes)))
    prev = set()
    try:
        prev = {int(x, 16) for x in open(os.path.join(w, "extra_chars.txt")).read().split()}
    except OSError:
        pass
    open(os.path.join(w, "extra_chars.txt"), "w").write(" ".join("%x" % c for c in sorted(prev | chars)))
print("sizes:", sorted(sizes), "chars:", ["%x" % c for c in sorted(chars)])
