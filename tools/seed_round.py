#!/usr/bin/env python3
"""usage: seed_round.py <round> <srcdir> <first-index> Cxx [Cxx...]
Confirms each agent-produced change (<srcdir>/Cxx-out/patch{1,2}.diff) in a scratch worktree
and, if confirmed, stores it as /verif/seeded/Cxx-<k>/ ; then runs the property's quick check
against it (applied to /repo, reverted afterwards)."""
import json, os, subprocess, sys, shutil, re
rnd, src, first = int(sys.argv[1]), sys.argv[2], int(sys.argv[3])
for pid in sys.argv[4:]:
    out = "%s/%s-out" % (src, pid)
    if os.path.exists(out + "/NOTES.md"):
        shutil.copy(out + "/NOTES.md", "/verif/seeded/%s-NOTES-round%d.md" % (pid, rnd))
    for n in (1, 2):
        k = first + n - 1
        if not os.path.exists("%s/patch%d.diff" % (out, n)):
            print(pid, n, "no patch"); continue
        tag = "%s-r%d-%d" % (pid, rnd, n)
        r = subprocess.run(["/verif/tools/seed_confirm2.sh", out, str(n), tag], capture_output=True, text=True).stdout
        kv = dict(x.split("=", 1) for x in r.split() if "=" in x)
        ok = (kv.get("apply") == "ok" and kv.get("suite") == "pass" and
              (kv.get("demo_clean") == "pass" and kv.get("demo_mut") == "fail" or
               kv.get("demo_clean_min") == "pass" and kv.get("demo_mut_min") == "fail") and kv.get("demo_clean") == "pass")
        print(pid, n, "confirmed" if ok else "REJECTED", r.strip(), flush=True)
        if not ok:
            continue
        d = "/verif/seeded/%s-%d" % (pid, k)
        os.makedirs(d, exist_ok=True)
        shutil.copy("%s/patch%d.diff" % (out, n), d + "/patch.diff")
        shutil.copy("%s/demo%d.rs" % (out, n), d + "/demo.rs")
        files = re.findall(r"^\+\+\+ b/(\S+)", open(d + "/patch.diff").read(), re.M)
        meta = {"property": pid, "seed": k, "round": rnd, "files_touched": files,
                "needs_default_features_to_manifest": kv.get("demo_mut_min") != "fail",
                "confirmed_in_scratch_worktree": {"applies_to_HEAD": True, "existing_suite_passes_with_change": True,
                    "demo_fails_with_change": kv.get("demo_mut") == "fail", "demo_passes_without_change": True,
                    "demo_fails_with_change_no_default_features": kv.get("demo_mut_min") == "fail"},
                "commands": ["tools/seed_confirm2.sh (scratch worktree: demo on clean HEAD with both feature sets, git apply, demo again with both feature sets, whole suite with the change)"],
                "origin": "round %d: independent sub-agent, told which kinds of change earlier rounds had tried for this property and asked for a different kind; saw only the property text and its own scratch worktree" % rnd}
        json.dump(meta, open(d + "/meta.json", "w"), indent=1)
        c = subprocess.run(["/verif/tools/seed_check.sh", d + "/patch.diff", pid], capture_output=True, text=True).stdout
        print("   ", c.strip().replace("\n", "\n    ")[:600], flush=True)
