#!/bin/bash
# usage: stage2.sh <lane> <nlanes> — run all 20 quick checks against every surviving mutant (private copy of /verif and /repo)
L=$1; N=$2
D=/tmp/sysmut/s2lane$L
rm -rf $D; mkdir -p $D
git -C /repo worktree remove --force $D/repo >/dev/null 2>&1
git -C /repo worktree add --detach $D/repo HEAD >/dev/null 2>&1
rsync -a --exclude .git --exclude replays --exclude work /verif/ $D/verif/
sed -i "s|path = \"/repo\"|path = \"$D/repo\"|" $D/verif/harness/Cargo.toml
sed -i "s|REPO = os.environ.get(\"VERIF_REPO\", \"/repo\")|REPO = os.environ.get(\"VERIF_REPO\", \"$D/repo\")|" $D/verif/check
mkdir -p /tmp/sysmut/out
cd $D/verif && ./check C10 > /dev/null 2>&1
i=0
for r in /tmp/sysmut/res/*.txt; do
  id=$(basename $r .txt)
  grep -q survived $r || continue
  i=$((i+1)); [ $((i % N)) -eq $L ] || continue
  [ -f /tmp/sysmut/out/$id.txt ] && continue
  git -C $D/repo checkout -- . ; git -C $D/repo apply /tmp/sysmut/patches/$id.diff || continue
  : > /tmp/sysmut/out/$id.tmp
  f=$(grep -m1 '^+++ b/' /tmp/sysmut/patches/$id.diff | sed 's|+++ b/||')
  case $f in
    src/core.rs) first="C10 C12 C02 C13 C05";;
    src/wrap.rs) first="C01 C08 C09 C05 C02";;
    src/fill.rs) first="C17 C09 C05 C14";;
    src/refill.rs) first="C15 C16";;
    src/indentation.rs) first="C18 C19";;
    src/columns.rs) first="C20";;
    src/line_ending.rs) first="C15 C16 C09";;
    src/word_separators.rs) first="C11 C13 C01";;
    src/word_splitters.rs) first="C12 C02 C13";;
    src/wrap_algorithms.rs) first="C07 C06 C03";;
    src/wrap_algorithms/optimal_fit.rs) first="C03 C06 C04";;
    *) first="C05";;
  esac
  rest=""; for p in C01 C02 C03 C04 C05 C06 C07 C08 C09 C10 C11 C12 C13 C14 C15 C16 C17 C18 C19 C20; do echo " $first " | grep -q " $p " || rest="$rest $p"; done
  found=0
  for p in $first $rest; do
    [ $found -eq 1 ] && break
    o=$(cd $D/verif && timeout 900 ./check $p --tier quick 2>&1)
    if echo "$o" | grep -q "^VIOLATION.*no-failing-input-found"; then echo "$p broken" >> /tmp/sysmut/out/$id.tmp
    elif echo "$o" | grep -q "^VIOLATION"; then echo "$p VIOLATION $(echo "$o" | grep -m1 'minimised:' | cut -c1-200)" >> /tmp/sysmut/out/$id.tmp; found=1
    else echo "$p -" >> /tmp/sysmut/out/$id.tmp; fi
  done
  mv /tmp/sysmut/out/$id.tmp /tmp/sysmut/out/$id.txt
  git -C $D/repo checkout -- .
done
echo done > /tmp/sysmut/out/S2LANE$L-DONE
