"""Per-property configuration of ./check: which harness modes feed the correspondence
(L1) and the conclusion checks (L2), with case counts (quick, thorough)."""

ALLOWED_AXIOMS = set()   # the development is axiom-free; anything Print Assumptions lists is reported

TRUSTED_BASE = [
    "Coq 8.16.1 kernel and coqc (vm_compute used for the width-table lemma and Examples; no native_compute)",
    "axioms: none (Print Assumptions under every property theorem must say 'Closed under the global context')",
    "hand-written Gallina model coq/Model/*.v of the Rust source, tied to /repo by the L1 correspondence (differential testing on generated inputs this run) and, for its literal constants, by tools/gen_src_consts.py (regular-expression extraction of the literals from the source text into coq/gen/SrcConsts.v, proved equal to the model's constants by computation)",
    "extraction: Require Extraction + ExtrOcamlBasic only (its Extract Inductive for bool/option/unit/list/prod/sumbool/sumor and Extract Inlined Constant for fst/snd/andb/orb/negb); no directive of our own; OCaml 4.13.1",
    "ocaml/{util,checks,driver}.ml (case parser, printers, table loader, oracle tables) and the Rust harness (generators, catch_unwind, Cow/pointer observation, canonical printing)",
    "external crates are model parameters: unicode-width (table dumped exhaustively from the implementation each run), unicode-linebreak (oracle tabulated by the harness; assumed properties asserted on every generated case), smawk (executable Gallina model of smawk_inner/online_column_minima agreeing with the crate on every generated case, ties included; optimal-fit partitions recorded through the public Custom hook)",
    "f64 is modelled by a law-free Num record; instances Z and Q are exact where every intermediate value is an integer below 2^53 or a small dyadic rational; usize is N",
]

FF = "full"
MIN = "min"

PROPS = {
    "C01": {
        "exh": [("exh-wrap", FF), ("exh-wrap", MIN)],
        "ops": [("wrap", FF, 8000, 250000), ("wrap", MIN, 3000, 60000), ("wrap9", FF, 1500, 30000)],
        "spot": ["wrap"],
        "explanation": "theorem C01_wrap: the text is its paragraphs joined by the line ending, every paragraph is the concatenation of body+gap segments (gaps all spaces), line i is indent+body_i+pen (pen empty or one hyphen), Borrowed at the byte offset of its body when indent and pen are empty, ASCII bodies never end in a space — for any partition oracle and any valid splitter (both proved for the reference instances); the Unicode trailing-space clause is C01_body_ends_in_space_only_if (a body ends in a space only with the Unicode separator and break_words or a custom splitter; for any oracle answering with character boundaries and never breaking between two spaces, which the harness asserts on every case); L2: a backtracking re-parse of every returned line as indent + slice of the text (+ inserted hyphen), slices in order, gaps only spaces/line endings, borrowed lines at their byte offset, no slice ending in a space outside the Unicode/force-break exception",
        "assumptions": ["custom splitters return valid character boundaries"],
    },
    "C02": {
        "ops": [("wrap", FF, 8000, 250000), ("wrap", MIN, 3000, 60000)],
        "spot": ["wrap"],
        "explanation": "text-level theorems C02_lines_fit / C02_break_words / C02_esc_free for every paragraph and both indents (each line measured against the indent it is rendered with), under ParaTop (= not in the listed class CutInsideEscape) and well-formed indents; C02_width_functions discharges the hypotheses on the width function; L2: every first-fit line of well-formed text is at most the width wide, or its body is unbreakable under the configured separator/splitter, or it is in a listed known-finding class",
        "assumptions": ["display width is evaluated with the model's dw on the implementation's lines (dw itself is tied by C10)"],
    },
    "C04": {
        "release": True,
        "ops": [("wrap", FF, 3000, 100000), ("wrap", MIN, 1500, 30000), ("fill2", FF, 1500, 40000), ("fip", FF, 2000, 50000), ("walg", FF, 1000, 20000),
                ("unfill", FF, 2000, 50000), ("refill", FF, 2000, 50000), ("indent", FF, 1500, 30000), ("dedent", FF, 1500, 30000),
                ("wc", FF, 1500, 40000), ("dw", FF, 2000, 40000), ("fwa", FF, 1500, 30000), ("fwu", FF, 1500, 30000),
                ("sw", FF, 1500, 30000), ("bw", FF, 1500, 30000), ("ba", FF, 1500, 30000), ("ff", FF, 1500, 30000),
                ("of", FF, 1500, 30000), ("ffx", FF, 2000, 50000), ("ofx", FF, 2000, 50000), ("ofu", FF, 2000, 50000), ("wsl", FF, 1500, 30000), ("std", FF, 2000, 50000)],
        "explanation": "totality theorems for wrap and fill (every byte slice in range and on boundaries; with the model of smawk none of the crate's asserts or index operations can fail: C04_smawk_total, C04_wrap_fill_smawk), fill_inplace, unfill, split_words (built-in splitters), optimal_fit (every Num), wrap_columns relative to wrap; functions whose model type has no option cannot fail in the model; the rest is exploration: every op under catch_unwind and a watchdog on the adversarial stream, debug build with overflow checks (release as well in the thorough tier), non-finite f64 fragments",
        "assumptions": ["memory exhaustion, stack depth and wall-clock time are outside the model and only measured"],
    },
    "C05": {
        "ops": [("wsl", FF, 10000, 300000), ("fills", FF, 4000, 100000), ("wsl", MIN, 3000, 60000), ("fills", MIN, 1500, 30000), ("api", FF, 1, 1), ("api", MIN, 1, 1)],
        "spot": ["wrap", "fill"],
        "explanation": "theorems C05_fits_first_fit / C05_fits_optimal_fit (fits => exactly one unchanged line; hypotheses TrimOK, Additive = not CutInsideEscape, PenOK = not PenaltyWithoutRoom, each a theorem in the common cases: C05_hypotheses), C05_shortcut_first_fit / _optimal_fit / _texts (the byte-length shortcut is unobservable for ALL paragraphs, arbitrary penalties), C05_fill_shortcut; L2: impl-vs-impl comparison of wrap_single_line with its slow path and of fill with fill_slow_path through upstream's cfg(fuzzing) exports, and fits => one unchanged line, outside the listed classes",
        "assumptions": ["upstream's --cfg fuzzing exports are the only way to reach the slow path directly"],
    },
    "C08": {
        "ops": [("wrap", FF, 6000, 150000), ("wrap8", FF, 6000, 150000), ("wrap", MIN, 2000, 40000), ("wrap8", MIN, 2000, 40000)],
        "spot": ["wrap"],
        "explanation": "theorems C08_indents (every line starts with its indent, for every text/option/oracle) and C08_rest_independent_of_indent_characters (SameShape options give the same rests and Cow kinds); L2 checks both on the implementation, the second on pairs of runs with substituted indents",
        "assumptions": [],
    },
    "C13": {
        "ops": [("wrap13", FF, 10000, 300000), ("wrap13", MIN, 3000, 60000)],
        "spot": ["wrap"],
        "explanation": "theorem C13_wrap: for paragraphs given as interleavings of visible characters and well-formed space-free sequence runs that are Attached, with HyOK for the hyphen splitter and OracleOK for the Unicode separator, strip(lines of wrap(coloured)) = strip(lines of wrap(plain)) and every coloured line ends at top level — both separators, all splitters, break_words on/off, first-fit and any oracle that is a partition and blind to sequences (proved for the reference optimal-fit); the shortcut hypothesis is C05(b) (C13_shortcut_ok_*); L2: for texts meeting the precondition recogniser, strip(lines(coloured)) = lines(stripped), no line ends inside a sequence, none dropped, outside the listed class CutInsideEscape",
        "assumptions": [],
    },
    "C14": {
        "ops": [("fill2", FF, 10000, 300000), ("fill2", MIN, 3000, 60000)],
        "spot": ["fill"],
        "explanation": "theorems C14_first_fit (fill(fill t) = fill t for first-fit, empty indents, ASCII separator, built-in splitters, break_words on/off, every width, both line endings, every text) and C14_optimal_fit (reference oracle, no overflowing line, ESC-free text); the Unicode-separator half is reduced to ONE computable per-text hypothesis about the linebreak oracle, refind_b (every first-pass line does not end in a space and is re-found, alone, as fragments fitting one line): C14_any_separator proves idempotence from it for both separators, C14_check_always_true_for_ascii shows it holds for every text under the ASCII separator, examples show it is not removable; C14_optimal_fit_any_separator does the same for optimal-fit (reference oracle, no overflowing line) with the computable hypothesis refind_opt_b and no condition on separator, oracle or escape sequences; L2: the extracted refind_b is evaluated on every case (true => the case is an instance of the theorem and the implementation must be idempotent on it), otherwise fill(fill(t)) = fill(t) is checked under the property's option conditions",
        "assumptions": ["reading of the optimal-fit clause as in DESIGN.md §6/C14"],
    },
    "C03": {
        "ops": [("of", FF, 12000, 400000), ("wrap", FF, 4000, 150000), ("wsl", FF, 4000, 100000), ("fill2", FF, 2000, 50000), ("api", FF, 1, 1), ("walg", FF, 3000, 60000)],
        "colmin": True,
        "explanation": "theorems: the DP value is a lower bound for EVERY arrangement (Bellman, <=2 line widths), attained by back-tracking any true column minima (conditional on ColMin for smawk, which is not proved), the reference search satisfies ColMin, three widths are a counterexample, wrap hands exactly two widths to the algorithm and (C03_wrap_level_paragraphs, reference oracle) every paragraph's lines are rendered from a minimum-cost chain of its own fragments; L1/L2: exact cost (Q) of the implementation's arrangement = the DP optimum for every generated fragment list inside the precondition, and for every paragraph partition recorded at the wrap level; on integer-valued cases the verdict is that of the extracted Coq function optimal_b, proved sound and complete for 'minimum cost over all arrangements' (C03_checker_sound / _complete)",
        "assumptions": ["ColMin: smawk::online_column_minima returns true column minima on this matrix — NOT proved, exercised on every generated case by the exact-cost comparison"],
    },
    "C06": {
        "ops": [("ff", FF, 12000, 300000), ("of", FF, 8000, 200000), ("ff", MIN, 3000, 50000), ("wrap", FF, 3000, 60000), ("walg", FF, 2000, 40000)],
        "explanation": "theorems C06_first_fit (every Num), C06_optimal_fit (any minima with the row<column shape) and C06_optimal_fit_smawk: the executable model of the smawk crate never fails and back-tracking its answer is an ordered partition, for every Num and every comparison (law-free); L1 compares first-fit groups exactly and optimal-fit groups up to equal exact cost; L2 checks the partition shape of the implementation's slices (pointer offsets) and of every recorded wrap-level partition",
        "assumptions": ["the model of smawk (Model/Smawk.v) is tied to the crate by exact agreement on every generated case"],
    },
    "C07": {
        "ops": [("ff", FF, 15000, 400000), ("ff", MIN, 4000, 60000), ("wrap", FF, 3000, 60000), ("wrap", MIN, 2000, 40000), ("walg", FF, 3000, 60000), ("walg", MIN, 1500, 30000)],
        "explanation": "theorems: first_fit is Greedy and Greedy determines the arrangement uniquely (NumZ); greedy_b is proved equivalent to Greedy and run (Q arithmetic) on the implementation's lines; C07_wrap_level: for every paragraph of a text the lines wrap returns are rendered from the unique greedy grouping of that paragraph's own fragments for its own widths (only the first paragraph's first line is measured against the initial indent); L2 also at the text level (every reading of wrap's lines as groups is enumerated, one must be greedy) and on WrapAlgorithm::wrap called directly with 1-5 widths",
        "assumptions": ["f64 = exact Z/Q on the generated range"],
    },
    "C09": {
        "ops": [("wrap9", FF, 6000, 150000), ("wrap9", MIN, 2000, 40000), ("std", FF, 4000, 100000)],
        "spot": ["wrap", "fill"],
        "explanation": "theorems C09_prefix/tail_independent/empty_indents/line_count/fill_is_join/crlf_equivariant for any optimal-fit oracle that returns a partition; L1 on eight related calls per case; L2 evaluates each relation on the implementation's results",
        "assumptions": ["the optimal-fit oracle returns at least one line and does not invent words (follows from C06)"],
    },
    "C10": {
        "exh": [("exh-dw", FF), ("exh-dw", MIN)], "spot": ["dw"],
        "ops": [("dw", FF, 20000, 300000), ("dw", MIN, 6000, 100000)],
        "explanation": "theorems C10_wellformed/additive/insert/le_blen/widths about Model/Esc.v; L1 compares display_width with the extracted model under both feature sets; the per-character table is dumped from the implementation for all 1,112,064 scalars and re-proved (cw c <= utf8_len c) each run",
        "assumptions": ["per-character widths are a table read off the implementation (unicode-width is not modelled further)"],
    },
    "C11": {
        "exh": [("exh-fwa", FF), ("exh-fwu", FF)], "spot": ["fwa"],
        "ops": [("fwa", FF, 8000, 200000), ("fwu", FF, 8000, 200000), ("fwa", MIN, 3000, 50000)],
        "explanation": "theorems: both separators are Lossless (Unicode: for any oracle answer); ASCII boundaries are exactly the space/non-space transitions; Unicode boundaries are the kept opportunities, each mapped to the first top-level position with that stripped offset; L2 recomputes the expected boundaries from unicode_linebreak's answer",
        "assumptions": ["OracleOK: linebreaks() is strictly increasing, on char boundaries, > 0, last = length — asserted on every generated case"],
    },
    "C12": {
        "exh": [("exh-ba", FF)],
        "ops": [("hp", FF, 5000, 100000), ("sw", FF, 5000, 100000), ("ba", FF, 6000, 150000), ("bw", FF, 4000, 100000), ("ba", MIN, 2000, 40000), ("sw", MIN, 1500, 30000)],
        "explanation": "theorems C12_split/hyphen_points/break_lossless/bounded/maximal/escape_safe/small_words_unchanged; L2 re-derives every clause on the implementation's pieces",
        "assumptions": ["char::is_alphanumeric is a table dumped from the implementation"],
    },
    "C15": {
        "ops": [("unfill15", FF, 8000, 200000), ("unfill", FF, 8000, 200000), ("unfill15", MIN, 2000, 40000)],
        "spot": ["unfill"],
        "explanation": "theorems: C15_unfill_inverts_fill (fill itself, any width, either algorithm via any partition oracle, either line ending, with/without trailing ending), C15_roundtrip (the shape lemma), C15_total/structure/line_ending for ALL strings; L2 checks the round trip on fill's real output and the structural half on raw strings",
        "assumptions": ["the optimal-fit oracle returns a partition (OfitOK)"],
    },
    "C16": {
        "ops": [("refill16", FF, 8000, 200000), ("refill16", MIN, 2000, 40000)],
        "spot": ["unfill"],
        "explanation": "theorems C16_refill_of_fill (refill(fill(t,o1)+tail, o2) = fill(t, o2 with o1 indents)+converted tail when the first filling has >= 2 lines), C16_refill, C16_independent_of_old_width; L2 compares refill(fill(t,o1),o2) with fill(t,o2 with o1's indents) on the implementation",
        "assumptions": ["as C15"],
    },
    "C17": {
        "exh": [("exh-fip", FF)],
        "ops": [("fip", FF, 10000, 250000), ("fip", MIN, 3000, 50000)],
        "explanation": "theorems C17_total/shape/agrees_with_wrap; L2 checks length, the only-space-to-newline difference and equality with wrap (documented options) on the implementation",
        "assumptions": ["cw c <= utf8_len c (C10_widths)"],
    },
    "C18": {
        "exh": [("exh-dedent", FF)], "spot": ["dedent"],
        "ops": [("dedent", FF, 8000, 200000), ("dedent18", FF, 8000, 200000), ("std", FF, 4000, 100000)],
        "explanation": "theorems C18_margin/margin_is_longest/spec/idempotent (outside the known-finding class)/dedent_indent; L2 compares dedent with the declarative spec and checks idempotence and dedent-after-indent on the implementation",
        "assumptions": [],
    },
    "C19": {
        "exh": [("exh-indent", FF)], "spot": ["indent"],
        "ops": [("indent", FF, 10000, 250000), ("std", FF, 4000, 100000)],
        "explanation": "theorems C19_spec/line_structure/empty_prefix; L2 compares with the declarative spec",
        "assumptions": [],
    },
    "C20": {
        "ops": [("wc", FF, 5000, 120000), ("wc", MIN, 1500, 30000)],
        "explanation": "theorems C20_total/shape/column_major/row_width (the equal-width clause for gaps without ESC and wrapped lines that end outside an escape sequence; otherwise the listed known finding LineEndsInsideEscape, witness known_D10_C20); L2 rebuilds the rows from wrap's lines at the column width and compares, and checks equal display widths whenever every component of a row ends outside an escape sequence",
        "assumptions": ["cw SP = 1; columns small enough to iterate; dw(mid)*(columns-1) <= usize::MAX"],
    },
}
NOT_CLAIMED = {}
