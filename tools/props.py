"""Per-property configuration of ./check: which harness modes feed the correspondence
(L1) and the conclusion checks (L2), with case counts (quick, thorough)."""

ALLOWED_AXIOMS = set()   # the development is axiom-free; anything Print Assumptions lists is reported

TRUSTED_BASE = [
    "Coq 8.16.1 kernel and coqc (vm_compute used for the width-table lemma and Examples; no native_compute)",
    "axioms: none (Print Assumptions under every property theorem must say 'Closed under the global context')",
    "hand-written Gallina model coq/Model/*.v of the Rust source, tied to /repo only by the L1 correspondence (differential testing on generated inputs this run)",
    "extraction: Require Extraction + ExtrOcamlBasic only (its Extract Inductive for bool/option/unit/list/prod/sumbool/sumor and Extract Inlined Constant for fst/snd/andb/orb/negb); no directive of our own; OCaml 4.13.1",
    "ocaml/{util,checks,driver}.ml (case parser, printers, table loader, oracle tables) and the Rust harness (generators, catch_unwind, Cow/pointer observation, canonical printing)",
    "external crates are model parameters: unicode-width (table dumped exhaustively from the implementation each run), unicode-linebreak (oracle tabulated by the harness; assumed properties asserted on every generated case), smawk (optimal-fit partitions recorded through the public Custom hook)",
    "f64 is modelled by a law-free Num record; instances Z and Q are exact where every intermediate value is an integer below 2^53 or a small dyadic rational; usize is N",
]

FF = "full"
MIN = "min"

PROPS = {
    "C10": {
        "ops": [("dw", FF, 20000, 300000), ("dw", MIN, 6000, 100000)],
        "explanation": "theorems C10_wellformed/additive/insert/le_blen/widths about Model/Esc.v; L1 compares display_width with the extracted model under both feature sets; the per-character table is dumped from the implementation for all 1,112,064 scalars and re-proved (cw c <= utf8_len c) each run",
        "assumptions": ["per-character widths are a table read off the implementation (unicode-width is not modelled further)"],
    },
    "C06": {
        "ops": [("ff", FF, 12000, 300000), ("of", FF, 8000, 200000), ("ff", MIN, 3000, 50000)],
        "explanation": "theorems C06_first_fit (every Num) and C06_optimal_fit (any minima with smawk's structural row<column shape); L1 compares first-fit groups exactly and optimal-fit groups up to equal exact cost; L2 checks the partition shape of the implementation's slices (pointer offsets)",
        "assumptions": ["smawk returns one entry per column with row < column (its own assert!) — minima_ok"],
    },
}
