#!/usr/bin/env python3
"""Rewrites DESIGN.md section 9 from notes/matrix/*/ (raw per-change results of the detection matrix)."""
import os, re, subprocess, glob, json
ROOT = os.path.dirname(os.path.dirname(os.path.abspath(__file__)))
dirs = sorted(glob.glob(os.path.join(ROOT, "notes", "matrix", "*")))
table = subprocess.run([os.path.join(ROOT, "tools", "seed_table.py")] + dirs, capture_output=True, text=True).stdout
nseeds = len([d for d in glob.glob(os.path.join(ROOT, "seeded", "C*-*")) if os.path.isdir(d)])
nben = len(glob.glob(os.path.join(ROOT, "seeded", "benign-*", "patch.diff")))
text = """## 9. Seeded changes

%d changes were written by independent sub-agents in six rounds. Each agent saw only the
text of one property and a scratch git worktree of the library (nothing from `/verif`), and
had to deliver a change that compiles under both feature sets, passes the whole existing
suite, breaks the property, and a demonstration test that fails with the change and passes
without it. Round 1 asked for "realistic slips", rounds 2-3 for subtler ones (cooperating
edits in two places, numeric boundaries, one feature set or option variant only, iterator
state slips), rounds 4-5 additionally listed what earlier rounds had tried for the property
and asked for a different kind. Every change was confirmed here in a scratch worktree
(`tools/seed_confirm2.sh`: applies to HEAD; the demonstration passes on HEAD and fails with
the change, under the feature set it needs; the whole suite passes with the change) and is
kept as `seeded/<id>-<n>/` (`patch.diff`, `demo.rs`, `meta.json`); the authors' notes are
`seeded/<id>-NOTES*.md`. None is committed in `/repo`; `tools/seed_check.sh <patch> <ids>`
applies one with `git -C /repo apply`, runs the checks and reverts with
`git -C /repo checkout -- .`.

**What the changes taught the machinery.** Every miss was a generator or checker gap, closed
by a general improvement, never by special-casing the input: hostile alphabets (DEL, ZWJ,
skin-tone modifiers, colon-separated and very long CSI parameters, OSC with a backslash,
characters sharing UTF-8 lead bytes), width classes (0, 1, byte length +-1, display width
+-1, 63..400, usize::MAX), library defaults taken from `Options::new`/`Penalties::new`
themselves, `fill(b)` in the paragraph-independence relation, costing the built-in
`OptimalFit` variant against the `Custom` hook, table mismatches turned into concrete
`display_width` inputs, penalties that can each be absent, tiny or dominant (fraction 0),
the fast-vs-slow comparison made unconditional, C01's re-parse applied to `fill`'s lines,
`WrapAlgorithm::wrap` called directly with three and more widths, a text-level greedy check
with the proved `greedy_b`, lines whose content has no display width, words ending in a
hyphen and double-width words for `unfill`/`refill`, the mutation search around
disagreeing inputs (section 7, step 4a) and the delta-debugging shrinker.

**Detection matrix.** Every change was applied in turn to a private copy of the repository
and all twenty quick checks were run against it (`VERIF_SEED=1`; the changed-source budget
was in force; raw results in `notes/matrix/`). "failing input" = the check printed
`VIOLATION property=<id> replay=<file>` with a concrete, minimised input that violates the
property on the changed code; "broken only" = the check's correspondence (or a proof) broke,
the search found no input violating *that* property, and it printed
`VIOLATION ... no-failing-input-found` — expected for checks of *other* properties that share
an operation with the changed code. For the round-6 changes (`-7`, `-8`) only the own
property's check was run, so their other columns are empty. Rows for rounds 1-3 were produced before the last
improvements (C04-1 now yields a failing input through the mutation search). After the last
changes to the machinery (hardening of `check`, new conclusion checks, the round-6 generator
work) all 136 changes were run once more against their own property's quick check: 134 are
reported with a concrete failing input; C01-7 and C01-8 (round 6, see below) are not reported.

%s
**Round 6: changes built to evade random testing.** Eight agents (C01 C02 C03 C06 C07 C09 C10
C12) were told that a harness compares the library with a reference model on tens of
thousands of short random inputs per run and were asked for realistic changes whose trigger
such a harness would not hit: size thresholds (block-wise wrapping above 1024 fragments,
draining a line buffer every 1024 lines, 64 KiB and 256 KiB blocks), state that survives a
call (thread-local scratch buffers not reset on optimal-fit's overflow-error path), exact
arithmetic corner cases (a 1e-9 comparison tolerance, `total_cmp` and a line width of `-0.0`),
particular characters (non-ASCII digits next to a hyphen, DEL in an "ASCII fast path", the C1
string terminator U+009C inside an OSC, escape sequences longer than 2083 characters), and
measuring a whole where the parts are measured. On first contact the checks reported 4 of the
16 with a failing input and MISSED 12 — the honest measure of what the correspondence (a
testing tie) could not see. Closing the gap without special-casing any of them: (i) call
history — one case in 32 is preceded, on the same thread, by calls that end in optimal-fit's
overflow error; (ii) numbers — tiny dyadic excesses `v ± k/2^40` and `-0.0` among first-fit
widths (exact in f64 where numbers are only added and compared); (iii) alphabets — non-ASCII
digits and numbers, C1 controls, hyphenated words built from them; (iv) literal harvesting —
`tools/harvest.py` diffs the literals of `/repo/src` against a baseline copy
(`/verif/baseline/src`, the tree the model was written against; it only directs the search):
new character literals go to `VERIF_EXTRA_CHARS`, new integer literals between 16 and 8192
(also `1 << k`, hex) to `VERIF_EXTRA_SIZES`, around which the harness then builds a bounded
number of cases — that many (±1, ×1.5) words, paragraphs, lines, fragments, or characters
inside one escape sequence; large fragment lists are judged against the arrangement the
model of smawk finds (an upper bound on the minimum) instead of the quadratic reference
search. After that 14 of the 16 are reported with a concrete failing input. The two that
remain unreported (C01-7, C01-8) need a single paragraph above 64 KiB, respectively a text
above 256 KiB: the extracted model needs minutes per such case, so sizes above 8192 are not
chased. That is a stated limit (§10): a change whose only trigger is an input larger than
the model can process in the time of a check is invisible to the correspondence, and since
the theorems are about the model, not the code, nothing else would reveal it.

**Systematic single-site mutants.** Independently of the hand-made changes, `tools/mutgen.py`
applied classical mutation operators (relational and arithmetic operator swaps, `&&`/`||`,
off-by-one constants, `min`/`max`, `trim` variants, `is_alphanumeric`/`is_alphabetic`,
`break`/`continue`, character constants, ...) to every non-test line of `/repo/src`: 402 mutants.
47 do not compile and 249 are killed by the pinned 156-test suite. The 106 that compile under
both feature sets and pass the suite were run against the checks (the checks for the
touched file first, then all others, stopping at the first concrete failing input; raw data
in `notes/sysmut/results.json`):
57 are reported with a concrete, minimised failing input by a property check (C03 14, C18 9,
C01 6, C10 6, C12 5, C07 4, C15 3, ...); 13 change behaviour outside every property and are
reported only as a broken correspondence (9 mutants of the `PartialEq` impls, seen by the
`api` op; 2 of the line-number cache that only matter for three or more line widths, outside
C03's precondition, seen by `walg`; 1 that changes only the pointer identity of an empty
line; 1 that made `unfill("")` report width 1 — a gap in C15's conclusion check, which now
compares the returned width with the widest line and reports it with the input `""`);
the remaining 36 are equivalent mutants (13 capacity hints; 6 variants of the
byte-length-shortcut conditions, unobservable by theorem C05; conditions whose extra case
is unreachable or idempotent, e.g. `NonEmptyLines` re-skipping the line feed it did not consume;
constants added to every entry of the cost matrix; one line of the `hyphenation` feature,
which is not compiled). A second family (`tools/mutgen2.py`: statement deletion, conditions
forced to `true`/`false`, iterator/Option method swaps; 205 mutants, 3 do not compile, 178
killed by the suite) leaves 24 survivors: 21 are reported with a concrete failing input, the
other 3 are equivalent (the two byte-length shortcuts disabled outright — exactly the
unobservability theorem C05 states, one of them visible to C01's correspondence only
through the pointer identity of an empty line — and an `else if` whose condition is already
implied). No surviving mutant that violates a property went unreported.

**Negative controls.** %d behaviour-preserving refactorings (`seeded/benign-*/`; three of them
substantial rewrites by a sub-agent: the escape-sequence skipper as an explicit state machine,
`break_apart` with manual byte offsets, the Unicode word finder with merged filters, the
slow path building each `Cow` directly, `wrap_optimal_fit` with `scan`/front-to-back
traceback, `unfill`/`dedent`/`indent`/`wrap_columns`/`NonEmptyLines` rewritten) were applied
the same way: all twenty checks exit 0 on each (`tools/benign_check.sh`), i.e. no alarm on
code where the properties hold, although the changed-source budget (five times the cases)
was in force.

---------------------------------------------------------------------------

""" % (nseeds, table, nben)
p = os.path.join(ROOT, "DESIGN.md")
s = open(p).read()
a = s.index("## 9. Seeded changes")
b = s.index("## 10.")
open(p, "w").write(s[:a] + text + s[b:])
print("section 9 rewritten: %d seeds, %d controls" % (nseeds, nben))
