#!/usr/bin/env python3
"""Second family of systematic mutants: statement deletion and condition forcing.
usage: mutgen2.py <outdir>"""
import os, re, sys, json, difflib
REPO = "/repo"
out = sys.argv[1]
os.makedirs(out, exist_ok=True)
files = ["src/core.rs", "src/wrap.rs", "src/fill.rs", "src/refill.rs", "src/indentation.rs", "src/columns.rs",
         "src/line_ending.rs", "src/word_separators.rs", "src/word_splitters.rs", "src/wrap_algorithms.rs",
         "src/wrap_algorithms/optimal_fit.rs"]
index = []
n = 2000
def emit(f, src, i, newlines, what):
    global n
    mut = src[:i] + newlines + src[i + 1:]
    diff = "".join(difflib.unified_diff([x + "\n" for x in src], [x + "\n" for x in mut], "a/" + f, "b/" + f, n=3))
    n += 1
    name = "%04d" % n
    open(os.path.join(out, name + ".diff"), "w").write(diff)
    index.append({"id": name, "file": f, "line": i + 1, "old": src[i].strip(), "new": what})
for f in files:
    src = open(os.path.join(REPO, f)).read().split("\n")
    end = len(src)
    for i, l in enumerate(src):
        if l.strip() == "#[cfg(test)]" and i + 1 < len(src) and src[i + 1].startswith("mod tests"):
            end = i
            break
    for i in range(end):
        l = src[i]
        s = l.strip()
        if not s or s.startswith("//") or s.startswith("#["):
            continue
        ind = l[:len(l) - len(l.lstrip())]
        # statement deletion: assignments, compound assignments, pushes, break/continue
        if re.match(r"^[A-Za-z_][A-Za-z0-9_\.\[\]\(\)\*&]* (\+|-|\*)?= [^=].*;$", s) and not s.startswith("let "):
            emit(f, src, i, [], "(statement deleted)")
        elif re.match(r"^[a-z_][a-z0-9_\.]*\.(push|push_str|extend|truncate|clear|insert)\(.*\);$", s):
            emit(f, src, i, [], "(statement deleted)")
        elif s in ("break;", "continue;"):
            emit(f, src, i, [], "(statement deleted)")
        # condition forcing
        m = re.match(r"^(\} else )?if (.+) \{$", s)
        if m and not m.group(2).startswith("let "):
            pre = m.group(1) or ""
            emit(f, src, i, [ind + pre + "if true {"], pre + "if true {")
            emit(f, src, i, [ind + pre + "if false {"], pre + "if false {")
        m = re.match(r"^while (.+) \{$", s)
        if m and not m.group(1).startswith("let "):
            emit(f, src, i, [ind + "while false {"], "while false {")
        # Option/iterator method tweaks
        for (pat, rep) in [(r"\.rev\(\)", ""), (r"\.skip_while\(", ".take_while("), (r"\.take_while\(", ".skip_while("),
                           (r"\.any\(", ".all("), (r"\.all\(", ".any("), (r"\.filter\(\|", ".filter(|_unused| true || |"),
                           (r"\.unwrap_or\(0\)", ".unwrap_or(1)"), (r"\.starts_with\(", ".ends_with("), (r"\.ends_with\(", ".starts_with("),
                           (r"\.is_some\(\)", ".is_none()"), (r"\.is_none\(\)", ".is_some()"),
                           (r"\.chars\(\)\.next_back\(\)", ".chars().next()"), (r"\.find\(", ".rfind("), (r"\.strip_suffix\(", ".strip_prefix(")]:
            if "filter(|_unused|" in rep:
                continue
            for mm in re.finditer(pat, l):
                new = l[:mm.start()] + rep + l[mm.end():]
                emit(f, src, i, [new], new.strip())
json.dump(index, open(os.path.join(out, "index.json"), "w"), indent=0)
print(len(index), "mutants")
