#!/bin/bash
# usage: seed_confirm.sh <Cxx> <n>
# Confirms a seeded change in a scratch worktree: (1) applies to HEAD, (2) the whole
# existing suite passes with it, (3) the demo fails with it, (4) the demo passes without it.
set -u
id=$1; n=$2
out=/tmp/mut/$id-out
wt=/tmp/seedwt-$id-$n
export CARGO_NET_OFFLINE=true
res=/tmp/seedres/$id-$n.txt; mkdir -p /tmp/seedres; : > $res
git -C /repo worktree remove --force $wt >/dev/null 2>&1; rm -rf $wt
git -C /repo worktree add --detach $wt HEAD >/dev/null 2>&1 || { echo "worktree failed" >> $res; exit 1; }
cd $wt
cp $out/demo$n.rs tests/seed_demo.rs
# without the change
if cargo test --offline --test seed_demo >/tmp/seedres/$id-$n.clean.log 2>&1; then echo "demo_clean=pass" >> $res; else echo "demo_clean=FAIL" >> $res; fi
if git apply $out/patch$n.diff 2>>$res; then echo "apply=ok" >> $res; else echo "apply=FAIL" >> $res; fi
if cargo test --offline --test seed_demo >/tmp/seedres/$id-$n.mut.log 2>&1; then echo "demo_mut=pass" >> $res; else echo "demo_mut=fail" >> $res; fi
rm tests/seed_demo.rs
if cargo test --offline --workspace --no-fail-fast >/tmp/seedres/$id-$n.suite.log 2>&1; then echo "suite=pass" >> $res; else echo "suite=FAIL" >> $res; fi
grep -E "^test result" /tmp/seedres/$id-$n.suite.log | tr '\n' ' ' >> $res; echo >> $res
cd /; git -C /repo worktree remove --force $wt >/dev/null 2>&1; rm -rf $wt
cat $res
