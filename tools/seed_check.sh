#!/bin/bash
# usage: seed_check.sh <patch.diff> <prop> [more props...]
# Applies a seeded change to /repo, runs the given checks (quick tier), and reverts.
set -u
patch=$1; shift
cd /repo && git status --short | grep -v '^??' | grep . && { echo "/repo not clean"; exit 2; }
git -C /repo apply "$patch" || { echo "apply failed"; exit 2; }
trap 'git -C /repo checkout -- . ' EXIT
for p in "$@"; do
  out=$(cd /verif && timeout 900 ./check $p --tier ${TIER:-quick} 2>&1)
  rc=$?
  if echo "$out" | grep -q "^VIOLATION"; then
    echo "$p: DETECTED rc=$rc $(echo "$out" | grep '^VIOLATION' | head -1)"
    echo "$out" | grep -v "^VIOLATION\|^KNOWN" | head -2 | cut -c1-300
  else
    echo "$p: missed rc=$rc $(echo "$out" | tail -1 | cut -c1-200)"
  fi
done
