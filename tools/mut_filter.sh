#!/bin/bash
# usage: filter.sh <lane> <nlanes>   — which mutants survive the pinned test suite (unit + integration tests, default features)
K=$1; N=$2
W=/tmp/sysmut/wt$K
export CARGO_NET_OFFLINE=true
git -C /repo worktree remove --force $W >/dev/null 2>&1; rm -rf $W
git -C /repo worktree add --detach $W HEAD >/dev/null 2>&1
cd $W && cargo test --offline --workspace --lib --tests --no-run >/dev/null 2>&1
mkdir -p /tmp/sysmut/res
for p in /tmp/sysmut/patches/*.diff; do
  id=$(basename $p .diff)
  [ $((10#$id % N)) -eq $K ] || continue
  [ -f /tmp/sysmut/res/$id.txt ] && continue
  git -C $W checkout -- . ; git -C $W apply $p 2>/dev/null || { echo "noapply" > /tmp/sysmut/res/$id.txt; continue; }
  if ! timeout 300 cargo build --offline --quiet 2>/dev/null; then echo "nocompile" > /tmp/sysmut/res/$id.txt; continue; fi
  if ! timeout 300 cargo build --offline --quiet --no-default-features 2>/dev/null; then echo "nocompile-min" > /tmp/sysmut/res/$id.txt; continue; fi
  if timeout 600 cargo test --offline --workspace --lib --tests --no-fail-fast >/dev/null 2>&1; then echo "survived" > /tmp/sysmut/res/$id.txt; else echo "killed" > /tmp/sysmut/res/$id.txt; fi
done
git -C $W checkout -- .
echo done > /tmp/sysmut/res/LANE$K-DONE
