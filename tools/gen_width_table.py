#!/usr/bin/env python3
"""cw.tbl (written by `tw-harness tables` from the implementation, all 1,112,064
scalar values) -> coq/gen/WidthTable.v.  Rewrites the file only when it changes."""
import sys, os
src, dst = sys.argv[1], sys.argv[2]
rows = [tuple(int(x) for x in l.split()) for l in open(src) if l.strip()]
body = ";\n  ".join("(%d, %d, %d)" % r for r in rows)
text = """(* GENERATED from the implementation by `tw-harness tables`; do not edit. *)
From TW Require Import Chars.
Definition cw_ranges : list (N * N * N) := [
  %s ].
""" % body
old = open(dst).read() if os.path.exists(dst) else None
if old != text:
    os.makedirs(os.path.dirname(dst), exist_ok=True)
    open(dst, "w").write(text)
    print("updated", dst, len(rows), "ranges")
else:
    print("unchanged", dst, len(rows), "ranges")
