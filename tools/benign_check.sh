#!/bin/bash
# usage: benign_check.sh <patch.diff>  — applies a behaviour-preserving patch to /repo, runs all 20 quick checks, reverts
set -u
cd /repo && git status --short | grep -v '^??' | grep . && { echo "/repo not clean"; exit 2; }
git -C /repo apply "$1" || { echo "apply failed"; exit 2; }
trap 'git -C /repo checkout -- . ' EXIT
for p in C01 C02 C03 C04 C05 C06 C07 C08 C09 C10 C11 C12 C13 C14 C15 C16 C17 C18 C19 C20; do
  out=$(cd /verif && timeout 1200 ./check $p --tier quick 2>&1)
  if echo "$out" | grep -q "^VIOLATION"; then echo "$p ALARM: $(echo "$out" | grep -A3 '^VIOLATION' | head -4 | cut -c1-300)"; else echo "$p ok $(echo "$out" | tail -1 | cut -c1-120)"; fi
done
