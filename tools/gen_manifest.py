#!/usr/bin/env python3
"""Regenerates MANIFEST.json from tools/props.py and properties.jsonl."""
import json, sys, os
ROOT = os.path.dirname(os.path.dirname(os.path.abspath(__file__)))
sys.path.insert(0, os.path.join(ROOT, "tools"))
from props import PROPS, NOT_CLAIMED
P = [json.loads(l) for l in open(os.path.join(ROOT, "properties.jsonl"))]
checks, na = [], []
for p in P:
    pid = p["id"]
    if pid in PROPS:
        c = PROPS[pid]
        checks.append({
            "property_id": pid,
            "quick_cmd": "./check %s --tier quick" % pid,
            "thorough_cmd": "./check %s --tier thorough" % pid,
            "evidence_file": "evidence/%s.json" % pid,
            "replay_cmd_template": "./check %s --replay {path}" % pid,
            "engine": "coq-model",
            "level_claimed": {"category": "proof", "text": c["explanation"], "design_ref": "DESIGN.md §6/" + pid},
            "level_note": "Theorems are about the hand-written Coq model (coq/Model); the model is tied to /repo by the L1 correspondence run on every check (differential testing, counts in evidence). " + "; ".join(c.get("assumptions", [])),
            "technique": "Coq theorem about an executable model + extracted-model/implementation correspondence + checker on implementation outputs",
        })
    else:
        na.append({"property_id": pid, "reason": NOT_CLAIMED.get(pid, "check under construction (model, correspondence and conclusion checker exist; theorem file not yet registered)")})
m = {
    "version": 1,
    "setup_cmd": "./setup.sh",
    "hooks": {
        "guard": "fuzzing",
        "enable": "RUSTFLAGS=--cfg fuzzing (harness/.cargo/config.toml): upstream's own cfg, exposes textwrap::fuzzing::* for C05; no hook code was added to /repo",
        "baseline_off_cmd": "cd /repo && cargo test --workspace --no-fail-fast --offline",
        "source_commits": [],
        "add_only": True,
    },
    "engines": [{"name": "coq-model", "path": "coq/", "serves_properties": sorted(PROPS),
                 "kind_free_text": "Coq 8.16 model + theorems; extraction to OCaml driver; Rust differential harness"}],
    "checks": checks,
    "not_applicable": na,
    "notes": "See DESIGN.md. fix: commits in /repo (repairs, not hooks): 5fe3cc0 (C20), 1da65ab (C18), b660eb3 (C11), a83bb8a (C02), ebb97d2 (C08); listed in known-findings.txt.",
}
json.dump(m, open(os.path.join(ROOT, "MANIFEST.json"), "w"), indent=1)
print("checks:", [c["property_id"] for c in checks], "not claimed:", [n["property_id"] for n in na])
