#!/usr/bin/env python3
"""Systematic single-site mutants of /repo/src (classical operators), written as unified diffs.
usage: mutgen.py <outdir>  -> <outdir>/NNNN.diff + index.json"""
import os, re, sys, json, subprocess, difflib
REPO = "/repo"
out = sys.argv[1]
os.makedirs(out, exist_ok=True)
files = ["src/core.rs", "src/wrap.rs", "src/fill.rs", "src/refill.rs", "src/indentation.rs", "src/columns.rs",
         "src/line_ending.rs", "src/word_separators.rs", "src/word_splitters.rs", "src/wrap_algorithms.rs",
         "src/wrap_algorithms/optimal_fit.rs", "src/options.rs"]
OPS = [
    (r" <= ", " < "), (r" < ", " <= "), (r" >= ", " > "), (r" > ", " >= "), (r" == ", " != "), (r" != ", " == "),
    (r" && ", " || "), (r" \|\| ", " && "),
    (r" \+ 1\b", " + 0"), (r" - 1\b", " - 0"), (r" \+ 1\b", " + 2"), (r" \+ ", " - "), (r" - ", " + "), (r" \+= ", " -= "), (r" -= ", " += "),
    (r" \* ", " + "), (r" / ", " * "),
    (r"\.min\(", ".max("), (r"\.max\(", ".min("),
    (r"\.saturating_sub\(", ".wrapping_sub("),
    (r"trim_end_matches\(' '\)", "trim_end()"), (r"\.trim_end\(\)", ".trim_end_matches(' ')"), (r"\.trim\(\)", ".trim_end()"),
    (r"is_alphanumeric", "is_alphabetic"), (r"is_whitespace", "is_ascii_whitespace"),
    (r"\.is_empty\(\)", ".is_empty() == false"), (r"!([a-z_\.]+)\.is_empty\(\)", r"\1.is_empty()"),
    (r"\btrue\b", "false"), (r"\bfalse\b", "true"),
    (r"\b0\b", "1"), (r"\b1\b", "0"), (r"\b1\b", "2"), (r"\b2\b", "3"), (r"0\.0\b", "1.0"), (r"1\.0\b", "0.0"),
    (r"\.next_back\(\)", ".next()"), (r"\.last\(\)", ".first()"), (r"\.first\(\)", ".last()"),
    (r"len_utf8\(\)", "len_utf16()"), (r"\.len\(\)", ".len().saturating_sub(1)"),
    (r"\bbreak;", "continue;"), (r"\bcontinue;", "break;"),
    (r"'\\n'", "'\\r'"), (r"' '", "'\\t'"), (r"'-'", "'_'"),
    (r"idx > start", "idx >= start"), (r"\.skip\(1\)", ".skip(0)"), (r"\.enumerate\(\)\.skip_while", ".enumerate().take_while"),
]
index = []
n = 0
for f in files:
    path = os.path.join(REPO, f)
    src = open(path).read().split("\n")
    # stop at the unit tests
    end = len(src)
    for i, l in enumerate(src):
        if l.strip() == "#[cfg(test)]" and i + 1 < len(src) and src[i + 1].startswith("mod tests"):
            end = i
            break
    for i in range(end):
        l = src[i]
        s = l.strip()
        if not s or s.startswith("//") or s.startswith("#[") or s.startswith("use ") or s.startswith("pub use"):
            continue
        code = l.split("//")[0] if "//" in l and not ("\"" in l.split("//")[0] and l.split("//")[0].count("\"") % 2 == 1) else l
        seen = set()
        for (pat, rep) in OPS:
            for m in re.finditer(pat, code):
                new = code[:m.start()] + m.expand(rep) + code[m.end():] + l[len(code):]
                if new == l or new in seen:
                    continue
                seen.add(new)
                mut = src[:i] + [new] + src[i + 1:]
                diff = "".join(difflib.unified_diff([x + "\n" for x in src], [x + "\n" for x in mut], "a/" + f, "b/" + f, n=3))
                n += 1
                name = "%04d" % n
                open(os.path.join(out, name + ".diff"), "w").write(diff)
                index.append({"id": name, "file": f, "line": i + 1, "old": l.strip(), "new": new.strip()})
json.dump(index, open(os.path.join(out, "index.json"), "w"), indent=0)
print(n, "mutants")
