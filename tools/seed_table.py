#!/usr/bin/env python3
"""usage: seed_table.py <matrix-out-dir> [...]  -> markdown table of which checks report what for each seeded change"""
import sys, os, glob, re
rows = {}
for d in sys.argv[1:]:
    for f in sorted(glob.glob(os.path.join(d, "*.txt"))):
        sid = os.path.basename(f)[:-4]
        if not re.fullmatch(r"(C\d\d|benign)-\d+", sid):
            continue
        v, b = [], []
        for l in open(f):
            p = l.split()
            if len(p) >= 2:
                (v if p[1] == "VIOLATION" else b if p[1] == "broken" else []).append(p[0])
        rows[sid] = (v, b)
print("| change | own check | other checks reporting a failing input | checks reporting only a broken correspondence (`no-failing-input-found`) |")
print("|---|---|---|---|")
key = lambda s: (s.split("-")[0], int(s.split("-")[1]))
for sid in sorted(rows, key=key):
    v, b = rows[sid]
    own = sid.split("-")[0]
    ownv = "**failing input**" if own in v else ("broken only" if own in b else ("—" if own.startswith("C") else "n/a"))
    print("| %s | %s | %s | %s |" % (sid, ownv, " ".join(x for x in v if x != own) or "—", " ".join(x for x in b if x != own) or "—"))
n = len(rows)
print()
print("%d changes; own check reports a failing input for %d, a broken correspondence only for %d, nothing for %d." % (
    n, sum(1 for s, (v, b) in rows.items() if s.split("-")[0] in v), sum(1 for s, (v, b) in rows.items() if s.split("-")[0] in b and s.split("-")[0] not in v),
    sum(1 for s, (v, b) in rows.items() if s.split("-")[0] not in v and s.split("-")[0] not in b)))
