#!/bin/bash
# usage: seed_confirm2.sh <outdir> <n> <tag>   (like seed_confirm.sh, for a given output dir; also tries --no-default-features for the demo)
set -u
out=$1; n=$2; tag=$3
wt=/tmp/seedwt-$tag
export CARGO_NET_OFFLINE=true
res=/tmp/seedres/$tag.txt; mkdir -p /tmp/seedres; : > $res
git -C /repo worktree remove --force $wt >/dev/null 2>&1; rm -rf $wt
git -C /repo worktree add --detach $wt HEAD >/dev/null 2>&1 || { echo "worktree failed" >> $res; exit 1; }
cd $wt
cp $out/demo$n.rs tests/seed_demo.rs
if cargo test --offline --test seed_demo >/tmp/seedres/$tag.clean.log 2>&1; then echo "demo_clean=pass" >> $res; else echo "demo_clean=FAIL" >> $res; fi
if cargo test --offline --no-default-features --test seed_demo >/tmp/seedres/$tag.cleanmin.log 2>&1; then echo "demo_clean_min=pass" >> $res; else echo "demo_clean_min=FAIL" >> $res; fi
if git apply $out/patch$n.diff 2>>$res; then echo "apply=ok" >> $res; else echo "apply=FAIL" >> $res; fi
if cargo test --offline --test seed_demo >/tmp/seedres/$tag.mut.log 2>&1; then echo "demo_mut=pass" >> $res; else echo "demo_mut=fail" >> $res; fi
if cargo test --offline --no-default-features --test seed_demo >/tmp/seedres/$tag.mutmin.log 2>&1; then echo "demo_mut_min=pass" >> $res; else echo "demo_mut_min=fail" >> $res; fi
rm tests/seed_demo.rs
if cargo test --offline --workspace --no-fail-fast >/tmp/seedres/$tag.suite.log 2>&1; then echo "suite=pass" >> $res; else echo "suite=FAIL" >> $res; fi
cd /; git -C /repo worktree remove --force $wt >/dev/null 2>&1; rm -rf $wt
tr '\n' ' ' < $res; echo
