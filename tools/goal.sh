#!/bin/sh
# usage: tools_goal.sh file.v N  -- feed the first N lines to coqtop and show the goals
f=$1; n=$2
(head -n "$n" "$f"; echo "Show."; ) | timeout 120 coqtop -Q ${COQROOT:-/verif/coq} TW 2>&1 | tail -${3:-40}
