#!/bin/sh
# usage: showfail.sh <mode> <prop> [n]   (in /verif/work)
m=$1; p=$2; n=${3:-3}
grep -P "\t$p\t(FAIL|ERROR)" $m.out | head -$n | while IFS="$(printf '\t')" read ln l pr st det; do echo "--- line $ln: $det"; sed -n "${ln}p" $m.cases | python3 -c "
import sys
def dec(f):
    if f=='_': return ''
    try: return ''.join(chr(int(h,16)) for h in f.split('.'))
    except Exception: return None
for line in sys.stdin:
    fs=line.rstrip('\n').split('\t')
    out=[]
    skip=False
    for i,f in enumerate(fs):
        if f in ('@lbc','@rec'): skip=True; continue
        if f=='=>': skip=False; out.append('=>'); continue
        if skip: continue
        if ';' in f and f.count(';')==7:
            p=f.split(';'); p[2]=repr(dec(p[2])); p[3]=repr(dec(p[3])); out.append(';'.join(p)); continue
        if ',' in f or ':' in f:
            items=[]
            for it in f.split(','):
                if ':' in it and it[0] in 'OBS':
                    k,b=it.split(':',1); d=dec(b); items.append(k+':'+repr(d))
                else:
                    d=dec(it); items.append(repr(d) if d is not None else it)
            out.append('['+', '.join(items)+']'); continue
        d=dec(f)
        out.append(repr(d) if d is not None and ('.' in f or f=='_' or len(f)<=5 and all(c in '0123456789abcdef' for c in f)) else f)
    print('  '.join(out))
"; done
