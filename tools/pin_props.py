#!/usr/bin/env python3
"""Writes coq/Props/PINNED.json: for every property file the names of its theorems and a hash
of each (comment-free, whitespace-normalised) statement.  ./check refuses a Props file whose
theorems differ from the pinned ones (missing, renamed or restated), so a property theorem
cannot be weakened or dropped silently.  Re-run after a deliberate change of a statement."""
import os, re, json, hashlib, glob, sys
ROOT = os.path.dirname(os.path.dirname(os.path.abspath(__file__)))

def strip_comments(src):
    out, depth, i = [], 0, 0
    while i < len(src):
        if src.startswith("(*", i):
            depth += 1; i += 2
        elif src.startswith("*)", i) and depth:
            depth -= 1; i += 2
        else:
            if not depth:
                out.append(src[i])
            i += 1
    return "".join(out)

def statements(path):
    src = strip_comments(open(path).read())
    # the whole file too: a notation or definition slipped in before a theorem can change what its
    # (textually unchanged) statement means
    res = {"__file__": hashlib.sha256(" ".join(src.split()).encode()).hexdigest()[:16]}
    for m in re.finditer(r"^\s*Theorem\s+(\w+)\s*:(.*?)\.\s*Proof\.", src, re.M | re.S):
        stmt = " ".join(m.group(2).split())
        res[m.group(1)] = hashlib.sha256(stmt.encode()).hexdigest()[:16]
    return res

if __name__ == "__main__":
    pinned = {}
    for f in sorted(glob.glob(os.path.join(ROOT, "coq", "Props", "C*.v"))) + [os.path.join(ROOT, "coq", "Props", "KnownFindings.v")]:
        pinned[os.path.basename(f)[:-2]] = statements(f)
    json.dump(pinned, open(os.path.join(ROOT, "coq", "Props", "PINNED.json"), "w"), indent=1, sort_keys=True)
    print({k: len(v) for k, v in pinned.items()})
