(* Search for a counterexample to ColMin (the unproved hypothesis of C03): an input inside
   C03's precondition on which the MODEL of smawk (which agrees with the crate exactly on
   every case compared so far) returns an arrangement that is not minimum-cost.  Pure model
   computation, exact integers.  Prints candidate `of` case lines for the Rust harness.
   usage: colmin_search <mode> <seed> <count>      mode = rand | exh *)
open Model
open Util

let zi (i : int) : Obj.t = Obj.repr (z_of_dec (string_of_int i))
let mk (w, s, p) = { fw = zi w; fws = zi s; fpen = zi p }
let zeq (a : Obj.t) (b : Obj.t) = Z.eqb (Obj.obj a) (Obj.obj b)
let ranges_of (gs : 'a list list) =
  let off = ref 0 in
  List.map (fun g -> let l = List.length g in let r = (nat_of_int !off, nat_of_int (!off + l)) in off := !off + l; r) gs

let pre (fs : (int * int * int) list) =
  let rec ok = function (_, _, p) :: ((w, _, _) :: _ as r) -> p <= w && ok r | _ -> true in ok fs

let found = ref 0
let check (fs : (int * int * int) list) (lws : int list) (pen : int * int * int * int * int) =
  let (a, b, c, d, e) = pen in
  let p = { p_nline = n_of_int a; p_overflow = n_of_int b; p_frac = n_of_int c; p_short = n_of_int d; p_hyphen = n_of_int e } in
  let frs = List.map mk fs and lz = List.map zi lws in
  match optimal_fit_smawk numZ zeq (fun x -> x) p frs lz with
  | None -> incr found;
      Printf.printf "PANIC\tof\t%s\t%s\t%d:%d:%d:%d:%d\n%!"
        (String.concat "," (List.map (fun (w, s, p) -> Printf.sprintf "%d:%d:%d" w s p) fs))
        (String.concat "," (List.map string_of_int lws)) a b c d e
  | Some gs ->
      let ci : z = Obj.obj (arrangement_cost numZ p frs lz (ranges_of gs))
      and co : z = Obj.obj (opt_cost numZ p frs lz) in
      if not (Z.eqb ci co) then begin
        incr found;
        Printf.printf "SUBOPT\tof\t%s\t%s\t%d:%d:%d:%d:%d\n%!"
          (String.concat "," (List.map (fun (w, s, p) -> Printf.sprintf "%d:%d:%d" w s p) fs))
          (String.concat "," (List.map string_of_int lws)) a b c d e
      end

let () =
  let mode = Sys.argv.(1) and seed = int_of_string Sys.argv.(2) and count = int_of_string Sys.argv.(3) in
  Random.init seed;
  let total = ref 0 in
  (match mode with
   | "rand" ->
       let r k = Random.int k in
       for _ = 1 to count do
         let n = 1 + r 14 in
         let style = r 6 in
         let wmax = [| 3; 6; 12; 30; 100; 5 |].(style) in
         let fs = ref [] in
         let prevp = ref 0 in
         for _ = 1 to n do
           let w = (if r 6 = 0 then 0 else r (wmax + 1)) in
           let w = max w !prevp in
           let s = (match r 5 with 0 -> 0 | 1 -> r 4 | _ -> 1) in
           let p = (if r 4 = 0 then r 3 else 0) in
           prevp := p; fs := (w, s, p) :: !fs
         done;
         let fs = List.rev !fs in
         let lw () = (match r 4 with 0 -> r 4 | 1 -> r (wmax * 4 + 1) | _ -> r (wmax * 2 + 2)) in
         let lws = (match r 5 with 0 -> [] | 1 | 2 -> [lw ()] | _ -> [lw (); lw ()]) in
         let pv () = (match r 6 with 0 -> 0 | 1 -> 1 | 2 -> r 10 | 3 -> r 100 | 4 -> r 5000 | _ -> r 100000) in
         let pen = if r 3 = 0 then (1000, 2500, 4, 25, 25) else (pv (), pv (), (match r 3 with 0 -> 0 | 1 -> 1 + r 4 | _ -> r 30), pv (), pv ()) in
         if pre fs then (incr total; check fs lws pen)
       done
   | "exh" ->
       (* all sequences of up to [count] fragments over a small alphabet, all width pairs
          over a small range, a fixed set of penalty vectors; sharded by seed (0..15) *)
       let alpha = [ (0,0,0); (0,1,0); (1,1,0); (2,1,0); (3,1,0); (1,0,0); (2,1,1); (5,1,0) ] in
       let pens = [ (1000,2500,4,25,25); (0,0,0,0,0); (1,0,0,0,0); (0,1,0,0,0); (0,0,1,1,0); (0,0,0,0,1); (1,1,1,1,1); (3,50,2,7,5); (100,1,4,1000,0) ] in
       let lwl = [ []; [0]; [1]; [2]; [3]; [4]; [6]; [9]; [0;3]; [3;0]; [1;4]; [4;1]; [2;5]; [5;2]; [3;6]; [6;3]; [4;9]; [9;4]; [7;2]; [2;7] ] in
       let idx = ref 0 in
       let rec gen k acc =
         (if acc <> [] then begin
            incr idx;
            if !idx mod 16 = seed then begin
              let fs = List.rev acc in
              if pre fs then List.iter (fun lws -> List.iter (fun pen -> incr total; check fs lws pen) pens) lwl
            end
          end);
         if k > 0 then List.iter (fun a -> gen (k - 1) (a :: acc)) alpha in
       gen count []
   | "exh2" ->
       (* the region where the matrix is not totally monotone: two widths, no per-line
          penalty, a short-last-line penalty; fragment lists up to [count] over 6 letters *)
       let alpha = [ (0,0,0); (1,1,0); (2,1,0); (3,1,0); (1,0,0); (2,0,1) ] in
       let pens = [ (0,0,0,1,0); (0,1,0,1,0); (0,0,1,100,0); (0,50,4,100,0); (0,1,2,7,5); (1,0,0,100,0); (0,5,27,15499,0); (0,2123,0,1261,0);
                    (0,0,4,34,0); (0,17,0,1,0); (0,1,4,4023,0); (0,980,26,9,0) ] in
       let lwl = [ [4;1]; [5;1]; [7;2]; [7;1]; [9;2]; [12;2]; [13;1]; [19;2]; [22;2]; [3;0]; [6;0]; [2;5]; [4;4]; [6;3] ] in
       let idx = ref 0 in
       let rec gen k acc =
         (if List.length acc >= 3 then begin
            incr idx;
            if !idx mod 16 = seed then begin
              let fs = List.rev acc in
              if pre fs then List.iter (fun lws -> List.iter (fun pen -> incr total; check fs lws pen) pens) lwl
            end
          end);
         if k > 0 then List.iter (fun a -> gen (k - 1) (a :: acc)) alpha in
       gen count []
   | _ -> failwith "mode");
  Printf.printf "DONE\tcases=%d\tfound=%d\n" !total !found
