#!/bin/sh
# Extract the model and build the driver. Run from any directory.
set -e
cd "$(dirname "$0")"
coqc -Q ../coq TW ../coq/Extract.v > extract.log 2>&1 || { cat extract.log; exit 1; }
ocamlfind ocamlopt -O3 -w -a -package str model.mli model.ml util.ml checks.ml driver.ml -o driver 2>&1 || \
ocamlfind ocamlopt -w -a model.mli model.ml util.ml checks.ml driver.ml -o driver
ocamlfind ocamlopt -O3 -w -a -package str model.mli model.ml util.ml colmin_search.ml -o colmin_search 2>&1 || \
ocamlfind ocamlopt -w -a model.mli model.ml util.ml colmin_search.ml -o colmin_search
