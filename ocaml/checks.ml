(* L2: the properties' conclusions evaluated on the implementation's outputs.
   One line per (case, property):  <lineno> \t L2 \t <prop> \t ok|FAIL|skip|known \t <detail> *)
open Model
open Util

let say lineno prop status detail = Printf.printf "%d\tL2\t%s\t%s\t%s\n" lineno prop status detail

let sum_cw (v : str) : n = List.fold_left (fun acc c -> N.add acc (cw c)) N0 v
let n_le a b = N.leb a b

let dgroups (f : string) : (int * int) list =
  List.map (fun t -> match split_on '+' t with [a; b] -> (int_of_string a, int_of_string b) | _ -> failwith "bad group") (dlist f)

(* C06: non-empty contiguous runs covering 0..n; the empty input gives one empty line *)
let partition_ok (n : int) (gs : (int * int) list) : string option =
  if n = 0 then (if gs = [(0, 0)] then None else Some "empty input must give exactly one empty line")
  else
    let rec go pos = function
      | [] -> if pos = n then None else Some (Printf.sprintf "lines cover %d of %d fragments" pos n)
      | (off, len) :: r ->
          if off <> pos then Some (Printf.sprintf "line starts at %d, expected %d" off pos)
          else if len <= 0 then Some "empty line"
          else go (pos + len) r in
    go 0 gs

let is_bad impl = impl = "PANIC" || impl = "HANG" || String.length impl >= 7 && String.sub impl 0 7 = "UNKNOWN"

let run (lineno : int) (lbc : str -> n list) ofit (args : string array) (impl : string) : unit =
  let f i = args.(i) in
  let say = say lineno in
  (* C04: every op — the implementation returned normally *)
  if impl = "PANIC" || impl = "HANG" then say "C04" "FAIL" ("implementation " ^ impl)
  else if List.mem "PANIC" (split_on '\t' impl) then say "C04" "FAIL" "implementation PANIC"
  else say "C04" "ok" "";
  match f 0 with
  | "dw" when not (is_bad impl) ->
      let t = ds (f 1) in
      let d = n_of_dec impl in
      if not (n_le d (blen t)) then say "C10" "FAIL" "display_width exceeds the byte length"
      else (match wf_strip t with
            | Some v -> if N.eqb d (sum_cw v) then say "C10" "ok" "wf"
                        else say "C10" "FAIL" ("well-formed text: expected " ^ dec_of_n (sum_cw v))
            | None -> say "C10" "ok" "not-wf")
  | ("ff" | "of") when not (is_bad impl) ->
      if impl = "ERR" then say "C06" "skip" "overflow error"
      else begin
        let n = List.length (dlist (f 1)) in
        match partition_ok n (dgroups impl) with
        | None -> say "C06" "ok" ""
        | Some why -> say "C06" "FAIL" why
      end
  | _ -> ()
