(* L2: the properties' conclusions evaluated on the implementation's outputs.
   One line per (case, property):  <lineno> \t L2 \t <prop> \t ok|FAIL|skip|known \t <detail>
   "known" carries the class name listed in known-findings.txt.  These checkers speak
   about the implementation's observable results only; the model's functions are used
   where the property itself refers to a notion the library defines (display width,
   break opportunities, split points). *)
open Model
open Util

let cur_line = ref 0
let say prop status detail = Printf.printf "%d\tL2\t%s\t%s\t%s\n" !cur_line prop status detail

(* ------------------------------------------------------------------ helpers *)
let n1 = n_of_int 1
let sum_cw (v : str) : n = List.fold_left (fun acc c -> N.add acc (cw c)) N0 v
let n_le a b = N.leb a b
let n_lt a b = N.ltb a b
let is_sp c = N.eqb c sP
let rec take k l = if k <= 0 then [] else match l with [] -> [] | x :: r -> x :: take (k - 1) r
let rec drop k l = if k <= 0 then l else match l with [] -> [] | _ :: r -> drop (k - 1) r
let rec is_prefix (p : str) (s : str) = match p, s with [], _ -> true | x :: p', y :: s' -> x = y && is_prefix p' s' | _ -> false
let strip_prefix p s = if is_prefix p s then Some (drop (List.length p) s) else None
let ends_sp (s : str) = match List.rev s with c :: _ -> is_sp c | [] -> false
let last_opt l = match List.rev l with x :: _ -> Some x | [] -> None
let dwm (s : str) = dw cw s
let nzv (s : str) = List.length (List.filter (fun c -> n_lt N0 (cw c)) (strip s))
let top_level (s : str) = (final_state Normal s = Normal)
let int_blen s = int_of_n (blen s)
let has_esc (s : str) = List.exists (fun c -> N.eqb c eSC) s

let dgroups (f : string) : (int * int) list =
  List.map (fun t -> match split_on '+' t with [a; b] -> (int_of_string a, int_of_string b) | _ -> failwith "bad group") (dlist f)

type ol = { kind : string; off : int; txt : str }
let doline (t : string) : ol =
  match String.index_opt t ':' with
  | None -> failwith ("bad oline " ^ t)
  | Some i ->
      let head = String.sub t 0 i and body = String.sub t (i + 1) (String.length t - i - 1) in
      { kind = String.sub head 0 1; off = (if String.length head > 1 then int_of_string (String.sub head 1 (String.length head - 1)) else -1); txt = ds body }
let dolines (f : string) : ol list = List.map doline (dlist f)
let bad impl = impl = "PANIC" || impl = "HANG" || impl = "ERR" || (String.length impl >= 7 && String.sub impl 0 7 = "UNKNOWN") || (String.length impl >= 15 && String.sub impl 0 15 = "CUSTOM-MISMATCH")
let parts impl = split_on '\t' impl

(* ------------------------------------------------------------------ C06 / C07 / C03 on fragment lists *)
let partition_ok (n : int) (gs : (int * int) list) : string option =
  if n = 0 then (if gs = [(0, 0)] then None else Some "empty input must give exactly one empty line")
  else
    let rec go pos = function
      | [] -> if pos = n then None else Some (Printf.sprintf "lines cover %d of %d fragments" pos n)
      | (off, len) :: r ->
          if off <> pos then Some (Printf.sprintf "line starts at %d, expected %d" off pos)
          else if len <= 0 then Some "empty line"
          else go (pos + len) r in
    go 0 gs

(* the verdict is that of the extracted [chain_b] (Checkers/OptB.v: chain_b b a rs = true
   <-> rs is a chain a = s0 < e0 = s1 < ... = b); the hand-written scan above only supplies
   the wording, and must agree with it *)
let partition_ok (n : int) (gs : (int * int) list) : string option =
  let hand = partition_ok n gs in
  if n = 0 then hand
  else begin
    let proved = chain_b (nat_of_int n) (nat_of_int 0) (List.map (fun (a, l) -> (nat_of_int a, nat_of_int (a + l))) gs) in
    match hand, proved with
    | None, true -> None
    | Some why, false -> Some why
    | None, false -> Some "the proved checker chain_b rejects the partition"
    | Some why, true -> failwith ("partition_ok and chain_b disagree: " ^ why)
  end

let q0 = { qnum = Z0; qden = XH }
let qle a b = not (qltb b a)
let fq (x : Obj.t) : q = Obj.obj x
let c03_pre (fs : frag list) (lws : Obj.t list) : bool =
  List.length lws <= 2
  && List.for_all (fun f -> qle q0 (fq f.fw) && qle q0 (fq f.fws) && qle q0 (fq f.fpen)) fs
  && (let rec ok = function a :: (b :: _ as r) -> qle (fq a.fpen) (fq b.fw) && ok r | _ -> true in ok fs)

let groups_of (fs : 'a list) (gs : (int * int) list) : 'a list list =
  List.map (fun (off, len) -> take len (drop off fs)) gs

let check_frag_op (op : string) (f : int -> string) (impl : string) =
  let fs = List.map (dfrag_with qconv) (dlist (f 1)) and lws = List.map qconv (dlist (f 2)) in
  let n = List.length fs in
  if impl = "ERR" then begin
    say "C06" "skip" "overflow error";
    if all_int [f 1; f 2] then say "C04" "FAIL" "optimal-fit reported overflow for usize-valued widths"
  end else begin
    let gs = dgroups impl in
    (match partition_ok n gs with
     | None -> say "C06" "ok" ""
     | Some why -> say "C06" "FAIL" why);
    if partition_ok n gs = None then begin
      if op = "ff" then begin
        if greedy_b numQ (fun x -> x) lws (groups_of fs gs) then say "C07" "ok" ""
        else say "C07" "FAIL" "the implementation's lines are not the greedy arrangement"
      end else begin
        let p = dpen (f 3) in
        if n = 0 then say "C03" "ok" "empty"
        else if n > 400 then begin
          (* too many fragments for the quadratic reference search: the arrangement of the model of
             smawk is an upper bound on the minimum, so a dearer answer is not minimum-cost *)
          if c03_pre fs lws then begin
            let p = dpen (f 3) in
            let ranges = List.map (fun (a, l) -> (nat_of_int a, nat_of_int (a + l))) gs in
            let ci = fq (arrangement_cost numQ p fs lws ranges) in
            let model_groups =
              if all_int [f 1; f 2] then
                (match optimal_fit_smawk numZ (fun a b -> Z.eqb (Obj.obj a) (Obj.obj b)) (fun x -> x) p
                         (List.map (dfrag_with zconv) (dlist (f 1))) (List.map zconv (dlist (f 2))) with
                 | Some g -> Some (List.map List.length g) | None -> None)
              else (match optimal_fit_smawk numQ (fun a b -> qeq_bool (Obj.obj a) (Obj.obj b)) (fun x -> x) p fs lws with
                    | Some g -> Some (List.map List.length g) | None -> None) in
            match model_groups with
            | Some lens ->
                let off = ref 0 in
                let mr = List.map (fun l -> let r = (nat_of_int !off, nat_of_int (!off + l)) in off := !off + l; r) lens in
                let cm = fq (arrangement_cost numQ p fs lws mr) in
                if qltb cm ci then say "C03" "FAIL" "a cheaper arrangement exists (the one the model of smawk finds), so the returned one is not minimum-cost"
                else say "C03" "ok" "large: not dearer than the model of smawk's arrangement"
            | None -> say "C03" "skip" "large"
          end else say "C03" "skip" "outside the precondition"
        end
        else if c03_pre fs lws then begin
          let ranges = List.map (fun (a, l) -> (nat_of_int a, nat_of_int (a + l))) gs in
          let ci = fq (arrangement_cost numQ p fs lws ranges) and co = fq (opt_cost numQ p fs lws) in
          let ffg = first_fit numQ (fun x -> x) fs lws in
          let ffr = (let off = ref 0 in List.map (fun g -> let l = List.length g in let r = (nat_of_int !off, nat_of_int (!off + l)) in off := !off + l; r) ffg) in
          let cf = if n = 0 then ci else fq (arrangement_cost numQ p fs lws ffr) in
          (* the Coq-proved checker (Checkers/OptB.v), exact integers *)
          let proved = if all_int [f 1; f 2] then
              Some (optimal_b p (List.map (dfrag_with zconv) (dlist (f 1))) (List.map (fun x -> Obj.obj (zconv x)) (dlist (f 2))) ranges)
            else None in
          if proved = Some false then say "C03" "FAIL" "the returned arrangement fails the proved optimality checker optimal_b (its cost is not the minimum over all arrangements)"
          else if not (qeq_bool ci co) then say "C03" "FAIL" "cost of the returned arrangement exceeds the minimum over all arrangements"
          else if qltb cf ci then say "C03" "FAIL" "first-fit arrangement is cheaper"
          else say "C03" "ok" ""
        end else say "C03" "skip" "outside the precondition"
      end
    end
  end

(* recorded optimal-fit partitions at the wrap level (C03, C06): key pen#w:ws:p,...@lw,lw = lens *)
let check_records (recf : string) =
  if recf <> "-" then
    List.iter
      (fun kv ->
        match split_on '=' kv with
        | [k; v] ->
            (match split_on '#' k with
             | [pen; rest] ->
                 (match split_on '@' rest with
                  | [ws; lws] ->
                      let p = dpen pen in
                      let fs = List.map (dfrag_with qconv) (dlist ws) and lw = List.map qconv (dlist lws) in
                      let lens = List.map int_of_string (dlist v) in
                      let gs = (let off = ref 0 in List.map (fun l -> let r = (!off, l) in off := !off + l; r) lens) in
                      let n = List.length fs in
                      (match partition_ok n gs with
                       | Some why -> say "C06" "FAIL" ("wrap-level optimal-fit partition: " ^ why)
                       | None ->
                           say "C06" "ok" "wrap-level";
                           if n = 0 then say "C03" "ok" "empty"
                           else if n > 400 then say "C03" "skip" "too many fragments for the quadratic reference search"
                           else if c03_pre fs lw then begin
                             let ranges = List.map (fun (a, l) -> (nat_of_int a, nat_of_int (a + l))) gs in
                             let ci = fq (arrangement_cost numQ p fs lw ranges) and co = fq (opt_cost numQ p fs lw) in
                             if qeq_bool ci co then say "C03" "ok" "wrap-level"
                             else say "C03" "FAIL" ("wrap-level paragraph arrangement is not minimum-cost: " ^ kv)
                           end else say "C03" "skip" "outside the precondition")
                  | _ -> ())
             | _ -> ())
        | _ -> ())
      (split_on '|' recf)

(* ------------------------------------------------------------------ C01: lines are in-order slices *)
let gap_chars_ok (le : str) (g : str) : bool =
  (* what may be lost between two consecutive slices: ASCII spaces, then at most one
     line-ending sequence (the next slice is the first line of the next paragraph) *)
  let rec go = function
    | [] -> true
    | c :: r when is_sp c -> go r
    | l -> (match strip_prefix le l with Some r -> r = [] | None -> false) in
  go g
let all_spaces (g : str) : bool = List.for_all is_sp g

let c01_check ?(owned = false) (o : options) (text : str) (lines : ol list) : string option =
  let le = le_str o.o_le in
  let tarr = Array.of_list text in
  let n = Array.length tarr in
  let boff = Array.make (n + 1) 0 in
  for i = 0 to n - 1 do boff.(i + 1) <- boff.(i) + int_of_n (utf8_len tarr.(i)) done;
  let sub a b = Array.to_list (Array.sub tarr a (b - a)) in
  let matches_at s (sl : str) = (s + List.length sl <= n) && sub s (s + List.length sl) = sl in
  let nlines = List.length lines in
  let larr = Array.of_list lines in
  let failed = Hashtbl.create 64 in
  let why = ref "" in
  let rec go idx pos =
    if Hashtbl.mem failed (idx, pos) then false
    else if idx = nlines then begin
      if all_spaces (sub pos n) then true else (why := "characters other than spaces are lost after the last line"; false)
    end else begin
      let l = larr.(idx) in
      let ind = if idx = 0 then o.o_ii else o.o_si in
      let res =
        match strip_prefix ind l.txt with
        | None -> why := Printf.sprintf "line %d does not start with its indent" idx; false
        | Some body ->
            let cands =
              (body, false)
              :: (match o.o_spl, List.rev body with
                  (* only a custom splitter inserts a hyphen; the built-in one splits after an existing one *)
                  | SplCustom, c :: rb when N.eqb c hY -> [(List.rev rb, true)]
                  | _ -> []) in
            List.exists
              (fun (sl, inserted) ->
                let len = List.length sl in
                (* candidate start positions: pos, pos+1, ... while only spaces and line-ending
                   characters are skipped; the skipped part must be a legal gap *)
                let rec try_from s =
                  if s > n then false
                  else begin
                    let ok_here =
                      (if idx = 0 then s = 0 else gap_chars_ok le (sub pos s))
                      && matches_at s sl
                      && (let cow_ok =
                            if ind = [] && not inserted && not owned then
                              (l.kind = "B" && l.off = boff.(s)) || (l.kind = "S" && (sl = [] || text = []))
                            else true in
                          if not cow_ok then (why := Printf.sprintf "line %d is not a borrowed sub-slice at its place in the buffer" idx; false) else true)
                      && (if ends_sp sl && not (o.o_sep = SepUnicode && (o.o_bw || o.o_spl = SplCustom)) then
                            (why := Printf.sprintf "slice of line %d ends in a space" idx; false) else true)
                      && go (idx + 1) (s + len) in
                    if ok_here then true
                    else if s < n && (is_sp tarr.(s) || N.eqb tarr.(s) cR || N.eqb tarr.(s) lF) then try_from (s + 1)
                    else false
                  end in
                try_from pos)
              cands in
      if not res then begin
        Hashtbl.replace failed (idx, pos) ();
        if !why = "" then why := Printf.sprintf "line %d is not a slice of the text following line %d" idx (idx - 1)
      end;
      res
    end in
  if go 0 0 then None else Some !why

(* ------------------------------------------------------------------ words *)
let word_concat (ws : word list) : str = List.concat_map (fun w -> w.w_word @ w.w_ws) ws
let word_starts (ws : word list) : int list =
  let rec go pos = function [] | [_] -> [] | w :: r -> let p = pos + List.length w.w_word + List.length w.w_ws in p :: go p r in
  go 0 ws

let lossless_check (line : str) (ws : word list) : string option =
  if word_concat ws <> line then Some "concatenating word+whitespace does not reproduce the line"
  else if List.exists (fun w -> List.exists (fun c -> not (is_sp c)) w.w_ws) ws then Some "whitespace part contains a non-space"
  else if List.exists (fun w -> ends_sp w.w_word) ws then Some "a word ends in a space"
  else if List.exists (fun w -> w.w_pen <> []) ws then Some "a penalty is set"
  else if List.exists (fun w -> not (N.eqb w.w_width (dwm w.w_word))) ws then Some "cached width differs from the display width"
  else None

(* expected Unicode boundaries: opportunities of the stripped line (minus end of text,
   minus those after '-' / SHY), each mapped to the first top-level position of the
   original line whose stripped byte offset equals it *)
let unicode_expected_starts (lbc : str -> n list) (line : str) : int list =
  let stripped = strip line in
  let total = blen stripped in
  let before (o : n) : n option =
    let rec go acc prev = function
      | _ when N.eqb acc o -> prev
      | [] -> None
      | c :: r -> go (N.add acc (utf8_len c)) (Some c) r in
    go N0 None stripped in
  let opps =
    List.filter
      (fun o -> n_lt o total && (match before o with Some c -> not (N.eqb c hY || N.eqb c sHY) | None -> true))
      (lbc stripped) in
  (* positions: walk the line with the machine *)
  let arr = Array.of_list line in
  let res = ref [] and st = ref Normal and sidx = ref N0 and pending = ref opps and start_min = ref 0 in
  Array.iteri
    (fun i c ->
      (match !st, !pending with
       | Normal, o :: rest when N.eqb !sidx o && i >= !start_min -> res := i :: !res; pending := rest
       | _ -> ());
      let (s', v) = step !st c in
      if v then sidx := N.add !sidx (utf8_len c);
      st := s')
    arr;
  List.rev !res

(* ------------------------------------------------------------------ C13 precondition *)
(* every sequence is a well-formed SGR (CSI ... m) or OSC 8 hyperlink; every maximal run
   of sequences touches a non-space character; with the hyphen splitter it does not
   touch a hyphen *)
let c13_attached (hyphen : bool) (t : str) : bool =
  match wf_strip t with
  | None -> false
  | Some _ ->
      let arr = Array.of_list t in
      let n = Array.length arr in
      let ok = ref true in
      let i = ref 0 in
      let st = ref Normal in
      while !i < n do
        if N.eqb arr.(!i) eSC && !st = Normal then begin
          (* run of sequences from i to j-1 *)
          let j = ref !i in
          let continue = ref true in
          while !continue && !j < n do
            if !st = Normal && not (N.eqb arr.(!j) eSC) then continue := false
            else begin
              let kind_start = (!st = Normal) in
              if kind_start then begin
                (* classify the sequence: CSI must end in 'm'; OSC must start with "8;" *)
                if !j + 1 < n && N.eqb arr.(!j + 1) lBRACK then begin
                  let k = ref (!j + 2) in
                  while !k < n && not (is_final arr.(!k)) do
                    (* SGR parameters are parameter bytes (digits ; : < = > ?) *)
                    (let c = int_of_n arr.(!k) in if c < 0x30 || c > 0x3f then ok := false);
                    incr k
                  done;
                  if !k >= n || int_of_n arr.(!k) <> 0x6d then ok := false
                end else if !j + 3 < n && N.eqb arr.(!j + 1) rBRACK then begin
                  if not (int_of_n arr.(!j + 2) = 0x38 && int_of_n arr.(!j + 3) = 0x3b) then ok := false
                end else ok := false
              end;
              (* no line break or space inside a sequence (hyperlink payloads included) *)
              (if not kind_start then
                 let c = arr.(!j) in if N.eqb c lF || N.eqb c cR || is_sp c then ok := false);
              st := fst (step !st arr.(!j));
              incr j
            end
          done;
          let before = if !i > 0 then Some arr.(!i - 1) else None and after = if !j < n then Some arr.(!j) else None in
          let nonspace = function Some c -> not (is_sp c) && not (N.eqb c lF) && not (N.eqb c cR) | None -> false in
          if not (nonspace before || nonspace after) then ok := false;
          let is_hy = function Some c -> N.eqb c hY | None -> false in
          if hyphen && (is_hy before || is_hy after) then ok := false;
          i := !j
        end else begin
          st := fst (step !st arr.(!i));
          incr i
        end
      done;
      !ok

(* sequences of a string, in order (only meaningful when it ends at top level) *)
let sequences (t : str) : str list =
  let res = ref [] and cur = ref [] and st = ref Normal in
  List.iter
    (fun c ->
      let (s', v) = step !st c in
      if not v then cur := c :: !cur;
      if s' = Normal && !cur <> [] then (res := List.rev !cur :: !res; cur := []);
      st := s')
    t;
  if !cur <> [] then res := List.rev !cur :: !res;
  List.rev !res

(* ------------------------------------------------------------------ additivity (the D6 class) *)
let additive (lbc : str -> n list) (o : options) (p : str) : bool =
  let ws = find_words cw lbc o.o_sep p in
  match split_words cw (split_points alnum custom3 o.o_spl) ws with
  | None -> true
  | Some sws ->
      let total = List.fold_left (fun acc w -> N.add acc (N.add w.w_width (blen w.w_ws))) N0 sws in
      let lastws = (match last_opt sws with Some w -> blen w.w_ws | None -> N0) in
      N.eqb (N.sub total lastws) (dwm (trim_end_sp p))

(* an inserted hyphen has room: never wider than the whitespace plus the next fragment *)
let pen_ok (lbc : str -> n list) (o : options) (first : bool) (p : str) : bool =
  match pipeline_words cw alnum lbc custom3 o first p with
  | None -> true
  | Some bws ->
      let rec ok = function
        | a :: (b :: _ as r) -> n_le (blen a.w_pen) (N.add (blen a.w_ws) b.w_width) && ok r
        | [a] -> a.w_pen = []
        | [] -> true in
      ok bws

let default_pen p = (p = default_penalties)

(* ------------------------------------------------------------------ C03 at the wrap level when the built-in
   OptimalFit variant disagrees with wrap_optimal_fit: recover the arrangement from the
   returned lines and cost it *)
let q_of_n (x : n) : Obj.t = Obj.repr { qnum = (match x with N0 -> Z0 | Npos p -> Zpos p); qden = XH }
let recover_groups (o : options) (first : bool) (bws : word list) (lines : str list) : word list list option =
  let rec go first ws ls =
    match ls with
    | [] -> if ws = [] then Some [] else None
    | l :: rest ->
        let ind = if first then o.o_ii else o.o_si in
        if ws = [] then (if l = ind && rest = [] then Some [[]] else None)
        else begin
          let n = List.length ws in
          let rec try_k k =
            if k > n then None
            else begin
              let g = take k ws in
              if ind @ body g @ lastw_pen g = l then
                (match go false (drop k ws) rest with
                 | Some gs -> Some (g :: gs)
                 | None -> try_k (k + 1))
              else try_k (k + 1)
            end in
          try_k 1
        end in
  go first bws lines

let check_builtin_mismatch (lbc : str -> n list) (o : options) (first : bool) (para : str) (builtin : string) =
  match o.o_alg with
  | FirstFit -> ()
  | OptimalFit p ->
      (match pipeline_words cw alnum lbc custom3 o first para with
       | None -> ()
       | Some bws ->
           let lines = List.map (fun l -> l.txt) (dolines builtin) in
           (match recover_groups o first bws lines with
            | None -> say "C03" "FAIL" "the built-in OptimalFit variant's lines are not an arrangement of the paragraph's fragments that wrap_optimal_fit returns"
            | Some groups ->
                let fs = List.map (fun w -> { fw = q_of_n w.w_width; fws = q_of_n (blen w.w_ws); fpen = q_of_n (blen w.w_pen) }) bws in
                let lw = List.map q_of_n (line_widths cw o first) in
                let off = ref 0 in
                let ranges = List.map (fun g -> let l = List.length g in let r = (nat_of_int !off, nat_of_int (!off + l)) in off := !off + l; r) groups in
                if bws = [] then ()
                else begin
                  let ci = fq (arrangement_cost numQ p fs lw ranges) and co = fq (opt_cost numQ p fs lw) in
                  if c03_pre fs lw && not (qeq_bool ci co) then
                    say "C03" "FAIL" (Printf.sprintf "wrap with the built-in OptimalFit variant returned an arrangement of cost %s; the minimum is %s"
                                        (dec_of_z ci.qnum) (dec_of_z co.qnum))
                  else say "C03" "skip" "built-in variant differs at equal cost or outside the precondition"
                end))

(* ------------------------------------------------------------------ C07 at the text level: the lines of
   each paragraph, read back as groups of the paragraph's fragments, must be the greedy
   arrangement for the widths the paragraph's lines are measured against (greedy_b is the
   extracted, proved checker).  Only the FIRST paragraph's first line carries the initial
   indent.  `Unrecoverable: the lines are not groups of the model's fragments at all — that is
   C01/C11/C12's business, not C07's. *)
let recover_all (o : options) (first : bool) (bws : word list) (lines : str list) : word list list list =
  (* every way of reading [lines] as consecutive groups of [bws] (at most 64 are returned) *)
  let count = ref 0 in
  let rec go first ws ls : word list list list =
    if !count >= 64 then []
    else
      match ls with
      | [] -> if ws = [] then (incr count; [ [] ]) else []
      | l :: rest ->
          let ind = if first then o.o_ii else o.o_si in
          if ws = [] then (if l = ind && rest = [] then (incr count; [ [ [] ] ]) else [])
          else begin
            let n = List.length ws in
            let acc = ref [] in
            for k = 1 to n do
              let g = take k ws in
              if ind @ body g @ lastw_pen g = l then
                acc := !acc @ List.map (fun gs -> g :: gs) (go false (drop k ws) rest)
            done;
            !acc
          end in
  go first bws lines

let c07_text_level (lbc : str -> n list) (o : options) (text : str) (lines : str list) =
  let zn (x : n) : Obj.t = Obj.repr (match x with N0 -> Z0 | Npos p -> Zpos p) in
  (* `Ok if SOME reading of the lines as groups of fragments is greedy in every paragraph;
     `Bad p if readings exist but paragraph p is greedy in none of them *)
  let rec go first paras lines =
    match paras with
    | [] -> if lines = [] then `Ok else `Unrecoverable
    | p :: rest ->
        (match pipeline_words cw alnum lbc custom3 o first p with
         | None -> `Unrecoverable
         | Some bws ->
             let total = List.length lines in
             let lw = List.map zn (line_widths cw o first) in
             let best = ref `Unrecoverable in
             let m = ref 1 in
             while !best <> `Ok && !m <= total do
               let readings = recover_all o first bws (take !m lines) in
               if readings <> [] then begin
                 let greedy = bws = [] || List.exists (fun groups -> greedy_b numZ word_frag lw groups) readings in
                 match go false rest (drop !m lines) with
                 | `Unrecoverable -> ()
                 | `Ok -> if greedy then best := `Ok else if !best = `Unrecoverable then best := `Bad p
                 | `Bad q -> if !best = `Unrecoverable then best := `Bad q
               end;
               incr m
             done;
             !best) in
  go true (split_le o.o_le text) lines

let split_mismatch (s : string) : (string * string) option =
  (* CUSTOM-MISMATCH[a][b] *)
  let pre = "CUSTOM-MISMATCH[" in
  let lp = String.length pre in
  if String.length s > lp && String.sub s 0 lp = pre then begin
    match String.index_from_opt s lp ']' with
    | Some i when i + 1 < String.length s && s.[i + 1] = '[' ->
        Some (String.sub s lp (i - lp), String.sub s (i + 2) (String.length s - i - 3))
    | _ -> None
  end else None

(* ------------------------------------------------------------------ dedent / indent specs *)
let str_lines (s : str) : str list = lines s
let rec lcp (a : str) (b : str) : str = match a, b with x :: a', y :: b' when x = y -> x :: lcp a' b' | _ -> []
let lead_ws (l : str) : str = take_ws l
let nonblank (l : str) = has_nonws l
let margin (ls : str list) : str =
  match List.filter nonblank ls with
  | [] -> []
  | l :: r -> List.fold_left (fun m x -> lcp m (lead_ws x)) (lead_ws l) r
let dedent_spec (s : str) : str =
  let ls = str_lines s in
  let m = margin ls in
  let body = List.concat_map (fun l -> (if nonblank l then drop (List.length m) l else []) @ [lF]) ls in
  if ends_with s [lF] then body else (match List.rev body with _ :: r -> List.rev r | [] -> [])
let indent_spec (s : str) (p : str) : str =
  let ls = split_terminator_lf s in
  join [lF] (List.map (fun l -> (if nonblank l then p else trim_end p) @ l) ls) @ (if ends_with s [lF] then [lF] else [])

(* C15/C16 domain: non-empty words without space/CR/LF that do not begin with a prefix character *)
let word_ok15 (w : str) : bool =
  match w with
  | [] -> false
  | c :: _ -> not (is_prefix_char c) && List.for_all (fun x -> not (is_sp x || N.eqb x cR || N.eqb x lF)) w

(* the option domain of C15/C16 (the theorems' hypotheses): breaks at spaces only, indents
   made of unfill's prefix characters *)
let opts_ok15 (o : options) : bool =
  o.o_bw = false && o.o_spl = SplNone && o.o_sep = SepAscii
  && List.for_all is_prefix_char o.o_ii && List.for_all is_prefix_char o.o_si

(* ------------------------------------------------------------------ the dispatcher *)
let run (lineno : int) (lbc : str -> n list) ofit (args : string array) (impl : string) (recf : string) : unit =
  cur_line := lineno;
  let f i = args.(i) in
  let ps = parts impl in
  (* C04: every op — the implementation returned normally *)
  if List.exists (fun p -> p = "PANIC" || p = "HANG") ps then say "C04" "FAIL" ("implementation " ^ (if List.mem "HANG" ps then "HANG" else "PANIC"))
  else if List.exists (fun p -> String.length p >= 15 && String.sub p 0 15 = "CUSTOM-MISMATCH") ps then
    say "C06" "FAIL" "built-in OptimalFit and the recorded wrap_optimal_fit disagree"
  else say "C04" "ok" "";
  (match f 0, ps with
   | "wrap", [r] ->
       (match split_mismatch r with
        | Some (_, b) when not (String.contains b 'P') ->
            let o = dopts (f 1) and t = ds (f 2) in
            if List.length (split_le o.o_le t) = 1 then check_builtin_mismatch lbc o true t b
        | _ -> ())
   | "wsl", [_; r] ->
       (match split_mismatch r with
        | Some (_, b) when not (String.contains b 'P') -> check_builtin_mismatch lbc (dopts (f 1)) (f 2 = "1") (ds (f 3)) b
        | _ -> ())
   | _ -> ());
  if List.exists bad ps && not ((f 0 = "of" || f 0 = "ofu") && impl = "ERR") then ()
  else begin
    check_records recf;
    match f 0 with
    | "dw" ->
        let t = ds (f 1) in
        let d = n_of_dec impl in
        if not (n_le d (blen t)) then say "C10" "FAIL" "display_width exceeds the byte length"
        else (match wf_strip t with
              | Some v -> if N.eqb d (sum_cw v) then say "C10" "ok" "wf"
                          else say "C10" "FAIL" ("well-formed text: expected " ^ dec_of_n (sum_cw v))
              | None -> say "C10" "ok" "not-wf")
    | "ff" | "of" -> check_frag_op (f 0) f impl
    | "walg" ->
        (* WrapAlgorithm::wrap called directly on words with usize widths *)
        let ws = dwords (f 1) and lwn = List.map n_of_dec (dlist (f 2)) in
        let o = dopts ("0;lf;_;_;0;" ^ f 3 ^ ";a;n") in
        let n = List.length ws in
        let gs = dgroups impl in
        (match partition_ok n gs with
         | None -> say "C06" "ok" "walg"
         | Some why -> say "C06" "FAIL" why);
        if partition_ok n gs = None && n > 0 then begin
          let zn (x : n) : Obj.t = Obj.repr (match x with N0 -> Z0 | Npos p -> Zpos p) in
          let lwz = List.map zn lwn in
          match o.o_alg with
          | FirstFit ->
              if greedy_b numZ word_frag lwz (groups_of ws gs) then say "C07" "ok" "walg"
              else say "C07" "FAIL" "WrapAlgorithm::wrap(FirstFit): the lines are not the greedy arrangement for the given widths"
          | OptimalFit p ->
              let frs = List.map word_frag ws in
              let zle (a : Obj.t) (b : Obj.t) = not (Z.ltb (Obj.obj b) (Obj.obj a)) in
              let rec pre = function a :: (b :: _ as r) -> zle a.fpen b.fw && pre r | _ -> true in
              if List.length lwn <= 2 && pre frs then begin
                let ranges = List.map (fun (a, l) -> (nat_of_int a, nat_of_int (a + l))) gs in
                if optimal_b p frs (List.map Obj.obj lwz) ranges then say "C03" "ok" "walg"
                else say "C03" "FAIL" "WrapAlgorithm::wrap(OptimalFit): the arrangement fails the proved optimality checker optimal_b"
              end else say "C03" "skip" "outside the precondition"
        end
    | "ofu" ->
        if impl = "ERR" then say "C04" "FAIL" "optimal-fit reported overflow although all widths and penalties are usize-valued"
        else (match partition_ok (List.length (dlist (f 1))) (dgroups impl) with
              | None -> say "C06" "ok" "usize"
              | Some why -> say "C06" "FAIL" why)
    | "ffx" | "ofx" ->
        (* arbitrary doubles: the partition shape must hold whenever lines are returned *)
        if impl = "ERR" then say "C06" "skip" "overflow error"
        else (match partition_ok (List.length (dlist (f 1))) (dgroups impl) with
              | None -> say "C06" "ok" "f64"
              | Some why -> say "C06" "FAIL" why)
    | "fwa" ->
        let line = ds (f 1) and ws = dwords impl in
        (match lossless_check line ws with
         | Some why -> say "C11" "FAIL" why
         | None ->
             let arr = Array.of_list line in
             let expect = List.filter (fun p -> p > 0 && is_sp arr.(p - 1) && not (is_sp arr.(p))) (List.init (Array.length arr) (fun i -> i)) in
             if word_starts ws = expect && List.for_all (fun w -> w.w_word @ w.w_ws <> []) ws then say "C11" "ok" ""
             else say "C11" "FAIL" "ASCII boundaries are not exactly the space/non-space transitions")
    | "fwu" ->
        let line = ds (f 1) and ws = dwords impl in
        (match lossless_check line ws with
         | Some why -> say "C11" "FAIL" why
         | None ->
             let expect = unicode_expected_starts lbc line in
             let starts = word_starts ws in
             if starts <> expect then say "C11" "FAIL" "Unicode boundaries are not the mapped UAX#14 opportunities"
             else if List.exists (fun p -> not (top_level (take p line))) starts then say "C11" "FAIL" "a boundary falls inside an escape sequence"
             else say "C11" "ok" "")
    | "hp" ->
        let w = ds (f 1) in
        let arr = Array.of_list w in
        let n = Array.length arr in
        let expect = ref [] and off = ref 0 in
        for i = 0 to n - 1 do
          if N.eqb arr.(i) hY && i > 0 && i + 1 < n && alnum arr.(i - 1) && alnum arr.(i + 1) then expect := (!off + 1) :: !expect;
          off := !off + int_of_n (utf8_len arr.(i))
        done;
        if List.map int_of_string (dlist impl) = List.rev !expect then say "C12" "ok" "hp"
        else say "C12" "FAIL" "hyphen split points are not exactly the positions after '-' with alphanumeric neighbours"
    | "sw" ->
        let inw = dwords (f 2) and outw = dwords impl in
        let k = (match f 1 with "n" -> SplNone | "h" -> SplHyphen | _ -> SplCustom) in
        (* re-group the output per input word by consuming characters *)
        let rec per (ins : word list) (outs : word list) : string option =
          match ins with
          | [] -> if outs = [] then None else Some "extra pieces"
          | w :: rest ->
              let pts = List.map int_of_n (split_points alnum custom3 k w.w_word) in
              let npieces = List.length pts + 1 in
              let mine = take npieces outs and others = drop npieces outs in
              if List.length mine <> npieces then Some "wrong number of pieces"
              else if List.concat_map (fun p -> p.w_word) mine <> w.w_word then Some "pieces do not concatenate to the word"
              else begin
                let cum = ref 0 and bad = ref None in
                List.iteri
                  (fun i p ->
                    cum := !cum + int_blen p.w_word;
                    let lastp = (i = npieces - 1) in
                    if not (N.eqb p.w_width (dwm p.w_word)) then bad := Some "piece width is not its display width";
                    if lastp then begin
                      if p.w_ws <> w.w_ws || p.w_pen <> w.w_pen then bad := Some "last piece does not carry the word's whitespace and penalty"
                    end else begin
                      if List.nth pts i <> !cum then bad := Some "cut is not at the split point";
                      if p.w_ws <> [] then bad := Some "inner piece has whitespace";
                      let before = List.concat_map (fun q -> q.w_word) (take (i + 1) mine) in
                      let need = not (match last_opt before with Some c -> N.eqb c hY | None -> false) in
                      if p.w_pen <> (if need then [hY] else []) then bad := Some "hyphen penalty is wrong"
                    end)
                  mine;
                match !bad with Some b -> Some b | None -> per rest others
              end in
        (match per inw outw with None -> say "C12" "ok" "sw" | Some why -> say "C12" "FAIL" why)
    | "ba" | "bw" ->
        let lim = n_of_dec (f 2) in
        let inw = if f 0 = "ba" then [dword (f 1)] else dwords (f 1) in
        let outw = dwords impl in
        let rec per (ins : word list) (outs : word list) : string option =
          match ins with
          | [] -> if outs = [] then None else Some "extra pieces"
          | w :: rest ->
              if f 0 = "bw" && n_le w.w_width lim then
                (match outs with p :: r when p = w -> per rest r | _ -> Some "a word not wider than the limit was changed")
              else begin
                (* consume pieces until the word's text is covered *)
                let rec eat acc outs = if acc = w.w_word && (acc <> [] || w.w_word = []) then Some ([], outs)
                  else match outs with
                    | p :: r when is_prefix (acc @ p.w_word) w.w_word && p.w_word <> [] ->
                        (match eat (acc @ p.w_word) r with Some (ps, rem) -> Some (p :: ps, rem) | None -> None)
                    | _ -> None in
                match eat [] outs with
                | None -> Some "pieces do not concatenate to the word"
                | Some (mine, others) ->
                    let bad = ref None in
                    let np = List.length mine in
                    let acc = ref [] in
                    List.iteri
                      (fun i p ->
                        if not (top_level !acc) then bad := Some "a cut falls inside an escape sequence";
                        acc := !acc @ p.w_word;
                        if not (N.eqb p.w_width (dwm p.w_word)) then bad := Some "cached width of a piece is wrong";
                        if not (n_le p.w_width lim || nzv p.w_word = 1) then bad := Some "a piece is wider than the limit though it has several non-zero-width characters";
                        if i < np - 1 then begin
                          if p.w_ws <> [] || p.w_pen <> [] then bad := Some "inner piece carries whitespace or penalty";
                          let q = List.nth mine (i + 1) in
                          (match strip q.w_word with
                           | c :: _ -> if not (n_lt lim (N.add p.w_width (cw c))) then bad := Some "break is not maximal: the next character would have fitted"
                           | [] -> bad := Some "a following piece has no visible character")
                        end else if p.w_ws <> w.w_ws || p.w_pen <> w.w_pen then bad := Some "last piece does not carry whitespace and penalty")
                      mine;
                    if w.w_word = [] && mine <> [] then bad := Some "pieces from an empty word";
                    match !bad with Some b -> Some b | None -> per rest others
              end in
        (match per inw outw with None -> say "C12" "ok" (f 0) | Some why -> say "C12" "FAIL" why)
    | "wrap" ->
        let o = dopts (f 1) and text = ds (f 2) in
        let ls = dolines impl in
        (* C08 *)
        let ind_ok = List.for_all (fun x -> x) (List.mapi (fun i l -> is_prefix (if i = 0 then o.o_ii else o.o_si) l.txt) ls) in
        if ind_ok then say "C08" "ok" "" else say "C08" "FAIL" "a line does not start with its indent";
        (* C07, text level *)
        if o.o_alg = FirstFit && List.length ls <= 60 then begin
          match c07_text_level lbc o text (List.map (fun l -> l.txt) ls) with
          | `Ok -> say "C07" "ok" "text"
          | `Bad p -> say "C07" "FAIL" ("a paragraph's lines are not the greedy arrangement of its fragments for the widths its lines are measured against: " ^ es p)
          | `Unrecoverable -> say "C07" "skip" "lines are not groups of the model's fragments"
        end;
        (* C01 *)
        (match c01_check o text ls with
         | None -> say "C01" "ok" ""
         | Some why -> say "C01" "FAIL" why);
        (* C02 *)
        if o.o_alg = FirstFit && o.o_spl <> SplCustom then begin
          if wf_strip text = None || wf_strip o.o_ii = None || wf_strip o.o_si = None then say "C02" "skip" "not well-formed"
          else begin
            let verdict = ref "ok" and detail = ref "" in
            List.iteri
              (fun i l ->
                let ind = if i = 0 then o.o_ii else o.o_si in
                if n_lt o.o_width (dwm l.txt) then begin
                  match strip_prefix ind l.txt with
                  | None -> verdict := "FAIL"; detail := Printf.sprintf "line %d is wider than the width and does not start with its indent" i
                  | Some body ->
                      let bodies = body :: (match o.o_spl, List.rev body with
                                            | SplCustom, c :: rb when N.eqb c hY -> [List.rev rb] | _ -> []) in
                      let unbreakable b =
                        if o.o_bw then nzv b <= 1
                        else (match find_words cw lbc o.o_sep b with
                              | [] -> true
                              | [w] -> split_points alnum custom3 o.o_spl w.w_word = []
                              | _ -> false) in
                      if List.exists unbreakable bodies then ()
                      else if n_lt o.o_width (dwm ind) && N.eqb (dwm body) N0 then (if !verdict = "ok" then (verdict := "known"; detail := "IndentWiderThanWidth"))
                      else if not (List.for_all (additive lbc o) (split_le o.o_le text)) then (if !verdict = "ok" then (verdict := "known"; detail := "CutInsideEscape"))
                      else (verdict := "FAIL"; detail := Printf.sprintf "line %d is wider than the width and can be narrowed" i)
                end)
              ls;
            say "C02" !verdict !detail
          end
        end
    | "wsl" ->
        let o = dopts (f 1) and first = (f 2 = "1") and line = ds (f 3) in
        (match ps with
         | [fast; slow] ->
             let ind = if first then o.o_ii else o.o_si in
             (* wrap_single_line decides itself whether to take the shortcut; whenever it
                does, the result must be that of the general path *)
             if fast <> slow then say "C05" "FAIL" "the shortcut is observable: wrap_single_line and its general path differ"
             else begin
               let alg_ok = (match o.o_alg with FirstFit -> true | OptimalFit p -> default_pen p) in
               if alg_ok && n_le (N.add (dwm line) (dwm ind)) o.o_width then begin
                 let got = List.map (fun l -> l.txt) (dolines slow) in
                 if got = [ind @ trim_end_sp line] then say "C05" "ok" "fits"
                 else if not (additive lbc o line) then say "C05" "known" "CutInsideEscape"
                 else if not (pen_ok lbc o first line) then say "C05" "known" "PenaltyWithoutRoom"
                 else say "C05" "FAIL" "a paragraph that fits was not returned as one unchanged line"
               end else say "C05" "ok" "shortcut-only"
             end
         | _ -> ())
    | "fills" ->
        (match ps with
         | [a; b] -> if a = b then say "C05" "ok" "fill" else say "C05" "FAIL" "fill and its slow path differ"
         | _ -> ())
    | "wrap8" ->
        let o = dopts (f 1) in
        let ii2 = ds (f 2) and si2 = ds (f 3) in
        (match ps with
         | [a; b] ->
             let la = dolines a and lb = dolines b in
             let same_shape = N.eqb (dwm o.o_ii) (dwm ii2) && N.eqb (dwm o.o_si) (dwm si2)
                              && ((o.o_ii = []) = (ii2 = [])) && ((o.o_si = []) = (si2 = [])) in
             if not same_shape then say "C08" "skip" "indent pairs differ in width or emptiness"
             else if List.length la <> List.length lb then say "C08" "FAIL" "number of lines depends on the indents' characters"
             else begin
               let rest ii si ls = List.mapi (fun i l -> strip_prefix (if i = 0 then ii else si) l.txt) ls in
               let ra = rest o.o_ii o.o_si la and rb = rest ii2 si2 lb in
               if List.mem None ra || List.mem None rb then say "C08" "FAIL" "a line does not start with its indent"
               else if ra = rb then say "C08" "ok" "subst" else say "C08" "FAIL" "what follows the indent depends on the indents' characters"
             end
         | _ -> ())
    | "wrap9" ->
        let o = dopts (f 1) and a = ds (f 2) and b = ds (f 3) in
        (match ps with
         | [r1; r2; r3; r4; r5; r6; r7; r8] ->
             let l1 = dlist r1 and l2 = dlist r2 and l3 = dolines r3 and l4 = dolines r4 in
             let texts ls = List.map (fun l -> l.txt) ls in
             let n1 = List.length l1 in
             let t2 = dolines r2 in
             let tail2 = texts (drop n1 t2) in
             let le = le_str o.o_le in
             let count_le t = List.length (split_le o.o_le t) in
             let same_prefix = if a = [] then List.map (fun l -> l.txt) (take n1 t2) = List.map (fun l -> l.txt) (dolines r1) else take n1 l2 = l1 in
             if not same_prefix then say "C09" "FAIL" "wrap(a+ending+b) does not begin with the lines of wrap(a)"
             else if (let t4 = texts l4 in let k = List.length t4 - List.length tail2 in k < 0 || drop k t4 <> tail2) then
               say "C09" "FAIL" "the lines after the break depend on the text before it"
             else if o.o_ii = [] && o.o_si = [] && tail2 <> texts l3 then say "C09" "FAIL" "with empty indents the remaining lines differ from wrap(b)"
             else if List.length t2 < count_le (a @ le @ b) then say "C09" "FAIL" "fewer output lines than input lines"
             else if ds r5 <> join le (texts t2) then say "C09" "FAIL" "fill is not wrap's lines joined by the line ending"
             else if ds r8 <> join le (texts l3) then say "C09" "FAIL" "fill(b) is not wrap(b)'s lines joined by the line ending"
             else if not (List.mem lF o.o_ii || List.mem lF o.o_si)
                     && ds r7 <> List.concat_map (fun c -> if N.eqb c lF then [cR; lF] else [c]) (ds r6) then
               say "C09" "FAIL" "switching LF to CRLF changes more than the line endings"
             else say "C09" "ok" "";
             (* C01 for fill: the lines of fill's result, re-parsed like wrap's lines (they are
                owned, so the borrowing clause does not apply); judged only when the result
                splits into as many lines as wrap returned and wrap's own lines pass *)
             let full = a @ le @ b in
             let fl = split_le o.o_le (ds r5) in
             (match c01_check o full t2 with
              | Some why -> say "C01" "FAIL" ("wrap(a+ending+b): " ^ why)
              | None ->
                  if List.length fl = List.length t2 then begin
                    match c01_check ~owned:true o full (List.map (fun t -> { kind = "O"; off = 0; txt = t }) fl) with
                    | Some why -> say "C01" "FAIL" ("fill: " ^ why)
                    | None -> say "C01" "ok" "fill"
                  end else say "C01" "skip" "fill's result does not split into as many lines as wrap returned (C09 judges that)")
         | _ -> ())
    | "wrap13" ->
        let o = dopts (f 1) and t = ds (f 2) in
        (match ps with
         | [a; b] ->
             if o.o_spl = SplCustom || not (c13_attached (o.o_spl = SplHyphen) t) then say "C13" "skip" "precondition"
             else begin
               let la = dolines a and lb = dolines b in
               let sa = List.map (fun l -> strip l.txt) la and sb = List.map (fun l -> strip l.txt) lb in
               let cut = List.exists (fun l -> not (top_level l.txt)) la in
               let seqs_lines = List.concat_map (fun l -> sequences l.txt) la and seqs_text = sequences t in
               let ind_seqs = List.concat (List.mapi (fun i _ -> sequences (if i = 0 then o.o_ii else o.o_si)) la) in
               let additive_all = List.for_all (additive lbc o) (split_le o.o_le t) in
               if sa = sb && not cut && List.length seqs_lines = List.length seqs_text + List.length ind_seqs then say "C13" "ok" ""
               else if not additive_all then say "C13" "known" "CutInsideEscape"
               else if cut then say "C13" "FAIL" "an escape sequence is cut in two"
               else if sa <> sb then say "C13" "FAIL" "removing the sequences from the lines does not give wrap of the stripped text"
               else say "C13" "FAIL" "a sequence was dropped or duplicated"
             end
         | _ -> ())
    | "fill2" ->
        let o = dopts (f 1) and t = ds (f 2) in
        (match ps with
         | [a; b] ->
             let r1 = ds a in
             let builtin = (o.o_spl <> SplCustom) and noind = (o.o_ii = [] && o.o_si = []) in
             let no_forced () =
               (not o.o_bw)
               || List.for_all
                    (fun p ->
                      match split_words cw (split_points alnum custom3 o.o_spl) (find_words cw lbc o.o_sep p) with
                      | Some ws -> List.for_all (fun w -> n_le w.w_width o.o_width) ws
                      | None -> true)
                    (split_le o.o_le t) in
             let sep_ok = (o.o_sep = SepAscii) || no_forced () in
             let no_overflow = List.for_all (fun l -> n_le (dwm l) o.o_width) (split_le o.o_le r1) in
             let applies = builtin && noind && sep_ok && (match o.o_alg with FirstFit -> true | OptimalFit _ -> no_overflow) in
             (* the hypothesis of theorem C14_any_separator, evaluated by the extracted function:
                where it is true, idempotence of the model is a theorem for this very text *)
             let refind = o.o_alg = FirstFit && builtin && noind && refind_b cw alnum lbc custom3 o t in
             (* the same in the property's own words: no fragment had to be force-broken and the
                oracle is local on this text (C14_from_locality_and_no_forced_break) *)
             let property_form = refind && no_forced_b cw alnum lbc custom3 o t && local_b cw alnum lbc custom3 (o_nobreak o) t in
             if refind then say "C14" (if a = b then "ok" else "FAIL")
                 (if a = b then (if property_form then "theorem-instance (no forced break, local oracle)" else "theorem-instance") else "refind_b holds for this text, so idempotence is a theorem of the model, but the implementation's second fill differs")
             else if not applies then say "C14" "skip" "outside the stated option combinations"
             else if a = b && (match o.o_alg with OptimalFit _ -> refind_opt_b cw alnum lbc custom3 o t | FirstFit -> false) then
               (* hypothesis of C14_optimal_fit_any_separator holds for this text: an instance of
                  the theorem for the reference oracle (the implementation's oracle is smawk, which
                  may break cost ties differently, so the verdict itself is the comparison) *)
               say "C14" "ok" "reference-oracle-instance"
             else if a = b then say "C14" "ok" ""
             else if not (List.for_all (additive lbc o) (split_le o.o_le t)) then say "C14" "known" "CutInsideEscape"
             else say "C14" "FAIL" "fill is not idempotent"
         | _ -> ())
    | "unfill" ->
        (* structural half of C15 *)
        let t = ds (f 1) in
        (match split_on '/' impl with
         | [ut; uw; uii; usi; ule] ->
             let ut = ds ut and uii = ds uii and usi = ds usi in
             let widest = List.fold_left (fun acc l -> if n_lt acc (dwm l) then dwm l else acc) N0 (str_lines t) in
             if not (N.eqb (n_of_dec uw) widest) then say "C15" "FAIL" ("the returned width is not the display width of the widest line (" ^ dec_of_n widest ^ ")") else
             let nel = List.filter (fun l -> l <> []) (str_lines t) in
             let pc = List.for_all is_prefix_char in
             let inner = (match List.rev ut with c :: r when N.eqb c lF -> List.rev r | _ -> ut) in
             let pieces = split_lf t in
             let terminated = (match List.rev pieces with _ :: r -> List.rev r | [] -> []) in
             let no_empty = List.for_all (fun p -> p <> [] && p <> [cR]) terminated in
             let all_crlf = terminated <> [] && List.for_all (fun p -> match last_opt p with Some c -> N.eqb c cR | None -> false) terminated in
             if not (pc uii && pc usi) then say "C15" "FAIL" "a returned indent contains a non-prefix character"
             else if (match nel with l :: _ -> not (is_prefix uii l) | [] -> uii <> []) then say "C15" "FAIL" "initial indent is not a prefix of the first line"
             else if (match nel with _ :: r -> List.exists (fun l -> not (is_prefix usi l)) r | [] -> false) then say "C15" "FAIL" "subsequent indent is not a prefix of a later line"
             else if (match str_lines t with l :: _ -> not (is_prefix uii l) | [] -> uii <> []) then say "C15" "FAIL" "initial indent is not a prefix of line 0 (empty lines counted)"
             else if (match str_lines t with _ :: r -> List.exists (fun l -> not (is_prefix usi l)) r | [] -> false) then say "C15" "FAIL" "subsequent indent is not a prefix of every later line (empty lines counted)"
             else if List.mem lF inner then say "C15" "FAIL" "unfilled text contains an inner line break"
             else if no_empty && ((ule = "crlf") <> all_crlf) then say "C15" "FAIL" "reported line ending is wrong"
             else say "C15" "ok" "structural"
         | _ -> say "C15" "FAIL" "unparsable result")
    | "unfill15" when not (List.for_all word_ok15 (List.map ds (dlist (f 2))) && dlist (f 2) <> []) ->
        say "C15" "skip" "words outside the property's domain"
    | "unfill15" when not (opts_ok15 (dopts (f 1))) ->
        say "C15" "skip" "options outside the property's domain (breaks at spaces only, indents of prefix characters)"
    | "refill16" when not (List.for_all word_ok15 (List.map ds (dlist (f 3))) && dlist (f 3) <> []) ->
        say "C16" "skip" "words outside the property's domain"
    | "refill16" when not (opts_ok15 (dopts (f 1)) && opts_ok15 (dopts (f 2))) ->
        say "C16" "skip" "options outside the property's domain (breaks at spaces only, indents of prefix characters)"
    | "unfill15" ->
        let o = dopts (f 1) and words = List.map ds (dlist (f 2)) and tail = (f 3 = "1") in
        let para = join [sP] words in
        let le = le_str o.o_le in
        (match ps with
         | [filled; u] ->
             let filled = ds filled in
             (match split_on '/' u with
              | [ut; uw; uii; usi; ule] ->
                  let ut = ds ut and uii = ds uii and usi = ds usi in
                  let body = if tail then take (List.length filled - List.length le) filled else filled in
                  let lines = split_le o.o_le body in
                  let nl = List.length lines in
                  let wmax = List.fold_left (fun m l -> if n_lt m (dwm l) then dwm l else m) N0 lines in
                  (* words must not begin with prefix characters: generator guarantees it;
                     a filled text whose wrapped lines start (after the indent) with a prefix
                     character would be ambiguous *)
                  let expect_text = para @ (if tail then le else []) in
                  if ut <> expect_text then say "C15" "FAIL" "unfill(fill(p)) does not return the paragraph"
                  else if uii <> o.o_ii then say "C15" "FAIL" "initial indent not recovered"
                  else if nl >= 2 && usi <> o.o_si then say "C15" "FAIL" "subsequent indent not recovered"
                  else if nl >= 2 && (ule = "crlf") <> (o.o_le = LE_CRLF) then say "C15" "FAIL" "line ending not recovered"
                  else if n_of_dec uw <> wmax then say "C15" "FAIL" "width is not the widest line"
                  else say "C15" "ok" "roundtrip"
              | _ -> say "C15" "FAIL" "unparsable result")
         | _ -> ())
    | "refill16" ->
        let o1 = dopts (f 1) and o2 = dopts (f 2) and tail = (f 4 = "1") in
        (match ps with
         | [filled; r; f3] ->
             let filled = ds filled in
             let body = if tail then take (List.length filled - List.length (le_str o1.o_le)) filled else filled in
             if List.length (split_le o1.o_le body) < 2 then say "C16" "skip" "single line: indents not observable"
             else if ds r = ds f3 @ (if tail then le_str o2.o_le else []) then say "C16" "ok" ""
             else say "C16" "FAIL" "refill(fill(t,o1),o2) differs from fill(t, o2 with o1's indents)"
         | _ -> ())
    | "fip" ->
        let t = ds (f 1) in
        (match ps with
         | [r; w] ->
             let r = ds r and wl = List.map (fun l -> l.txt) (dolines w) in
             if List.length r <> List.length t || blen r <> blen t then say "C17" "FAIL" "length changed"
             else if List.exists2 (fun a b -> not (a = b || (is_sp a && N.eqb b lF))) t r then say "C17" "FAIL" "changed something other than a space into a newline"
             else if List.map trim_end_sp (split_lf r) <> wl then say "C17" "FAIL" "lines differ from wrap with the documented options"
             else say "C17" "ok" ""
         | _ -> ())
    | "indent" ->
        let s = ds (f 1) and p = ds (f 2) in
        let r = ds impl in
        if r <> indent_spec s p then say "C19" "FAIL" "not prefix+line for every line"
        else if p = [] && r <> s then say "C19" "FAIL" "empty prefix changed the text"
        else if not (List.mem lF p) && List.length (split_lf r) <> List.length (split_lf s) then say "C19" "FAIL" "number of lines changed"
        else say "C19" "ok" ""
    | "dedent" ->
        let s = ds (f 1) in
        let r = ds impl in
        if r <> dedent_spec s then say "C18" "FAIL" "not the text minus the longest common whitespace margin"
        else if List.length (split_lf r) <> List.length (split_lf s) then say "C18" "FAIL" "the number of line breaks changed"
        else say "C18" "ok" "spec"
    | "dedent18" ->
        let s = ds (f 1) and p = ds (f 2) in
        (match ps with
         | [d; dd; di] ->
             let cr_tail = List.exists (fun l -> match last_opt l with Some c -> N.eqb c cR | None -> false) (str_lines s) in
             if ds d <> dedent_spec s then say "C18" "FAIL" "not the text minus the longest common whitespace margin"
             else if d <> dd then (if cr_tail then say "C18" "known" "LineEndsInCR" else say "C18" "FAIL" "dedent is not idempotent")
             else if not (List.mem cR s) && not (List.mem lF p) && List.for_all is_whitespace p && di <> d then say "C18" "FAIL" "dedent(indent(s,p)) differs from dedent(s)"
             else say "C18" "ok" ""
         | _ -> ())
    | "wc" ->
        let o = dopts (f 1) and cols = int_of_string (f 3) in
        let l = ds (f 4) and m = ds (f 5) and r = ds (f 6) in
        (match ps with
         | [rows; w] ->
             let rows = List.map ds (dlist rows) and lines = List.map (fun x -> x.txt) (dolines w) in
             let inner = N.sub (N.sub (N.sub o.o_width (dwm l)) (dwm r)) (N.mul (dwm m) (n_of_int (cols - 1))) in
             let colw = (let q = fst (N.div_eucl inner (n_of_int cols)) in if n_lt q n1 then n1 else q) in
             let lastpad = spaces (snd (N.div_eucl inner colw)) in
             let n = List.length lines in
             let nrows = (n + cols - 1) / cols in
             let larr = Array.of_list lines in
             let cell rr k = let i = rr + k * nrows in if i < n then larr.(i) @ spaces (N.sub colw (dwm larr.(i))) else spaces colw in
             let expect = List.init nrows (fun rr -> l @ List.concat (List.init cols (fun k -> cell rr k @ (if k = cols - 1 then lastpad else m))) @ r) in
             if rows <> expect then say "C20" "FAIL" "rows are not gaps + column-major padded cells of wrap at the column width"
             else begin
               let fits = List.for_all (fun x -> n_le (dwm x) colw) lines in
               (* every component of a row ends outside an escape sequence: then widths add up *)
               let closed = List.for_all top_level lines && top_level l && top_level m && top_level r in
               let w0 = N.add (N.add (N.add (N.add (dwm l) (dwm r)) (N.mul (n_of_int (cols - 1)) (dwm m))) (N.mul (n_of_int cols) colw)) (snd (N.div_eucl inner colw)) in
               let uneven = List.exists (fun row -> not (N.eqb (dwm row) w0)) rows in
               if fits && uneven && closed then say "C20" "FAIL" "rows have different display widths"
               else if fits && uneven then say "C20" "known" "LineEndsInsideEscape"
               else say "C20" "ok" ""
             end
         | _ -> ())
    | _ -> ()
  end
