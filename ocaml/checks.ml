(* L2: property checkers applied to the implementation's outputs *)
open Model
open Util

let run (_lineno : int) _lbc _ofit (_args : string array) (_impl : string) : unit = ()
