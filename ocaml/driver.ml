open Model
open Util

(* ------------------------------------------------------------------ the model, per op *)
let id x = x

(* recorded optimal-fit partitions: key = widths@line widths, value = line lengths *)
let parse_rec (f : string) : (string, int list) Hashtbl.t =
  let h = Hashtbl.create 8 in
  if f <> "-" then
    List.iter
      (fun kv ->
        match split_on '=' kv with
        | [k; v] -> Hashtbl.replace h k (List.map int_of_string (dlist v))
        | _ -> ())
      (split_on '|' f);
  h
let rec_key (p : penalties) (ws : word list) (lws : n list) : string =
  Printf.sprintf "%s:%s:%s:%s:%s#" (dec_of_n p.p_nline) (dec_of_n p.p_overflow) (dec_of_n p.p_frac) (dec_of_n p.p_short) (dec_of_n p.p_hyphen)
  ^ elist (fun w -> Printf.sprintf "%s:%s:%s" (dec_of_n w.w_width) (dec_of_n (blen w.w_ws)) (dec_of_n (blen w.w_pen))) ws
  ^ "@" ^ enums lws
let rec take_groups (ws : 'a list) (lens : int list) : 'a list list =
  match lens with
  | [] -> []
  | l :: r ->
      let rec split k xs acc = if k = 0 then (List.rev acc, xs) else (match xs with [] -> (List.rev acc, []) | x :: t -> split (k - 1) t (x :: acc)) in
      let (g, rest) = split l ws [] in
      g :: take_groups rest r
let rec_hits = ref 0 and rec_miss = ref 0 and rec_same_as_dp = ref 0 and rec_same_as_smawk = ref 0
let ofit_of (h : (string, int list) Hashtbl.t) (p : penalties) (ws : word list) (lws : n list) : word list list option =
  match Hashtbl.find_opt h (rec_key p ws lws) with
  | Some lens ->
      incr rec_hits;
      let g = take_groups ws lens in
      (* the quadratic reference search is a statistic only; skipped for very long paragraphs *)
      (if List.length ws <= 300 then match ofit_dp p ws lws with Some d when d = g -> incr rec_same_as_dp | _ -> ());
      let sm = ofit_smawk p ws lws in
      (match sm with Some d when d = g -> incr rec_same_as_smawk | _ -> ());
      sm                              (* the model of smawk decides; the record is a cross-check *)
  | None -> incr rec_miss; ofit_smawk p ws lws

type env = { lbc : str -> n list; ofit : penalties -> word list -> n list -> word list list option }

let dgroups (f : string) : (int * int) list =
  List.map (fun t -> match split_on '+' t with [a; b] -> (int_of_string a, int_of_string b) | _ -> failwith "bad group") (dlist f)

(* C03's precondition on a fragment list (Q instance) *)
let q0 = { qnum = Z0; qden = XH }
let qle a b = not (qltb b a)
let c03_pre (fs : frag list) (lws : Obj.t list) : bool =
  let fq x : q = Obj.obj x in
  List.length lws <= 2
  && List.for_all (fun f -> qle q0 (fq f.fw) && qle q0 (fq f.fws) && qle q0 (fq f.fpen)) fs
  && (let rec ok = function a :: (b :: _ as r) -> qle (fq a.fpen) (fq b.fw) && ok r | _ -> true in ok fs)

let canon_empty (t : str) (ls : oline list) : oline list =
  match t with
  | [] -> List.map (fun l -> match l.l_cow with Borrowed _ -> { l with l_cow = BorrowedStatic } | _ -> l) ls
  | _ -> ls
let wrap_s (e : env) (o : options) (t : str) : string =
  opt_or_panic (fun ls -> eolines (canon_empty t ls)) (wrap cw alnum e.lbc custom3 e.ofit o t)
let fill_s (e : env) (o : options) (t : str) : string =
  opt_or_panic es (fill cw alnum e.lbc custom3 e.ofit o t)
let unfill_s (t : str) : string =
  opt_or_panic
    (fun u ->
      Printf.sprintf "%s/%s/%s/%s/%s" (es u.u_text) (dec_of_n u.u_width) (es u.u_ii) (es u.u_si)
        (match u.u_le with LE_CRLF -> "crlf" | LE_LF -> "lf"))
    (unfill cw t)

let model (e : env) (fields : string array) : string =
  let f i = fields.(i) in
  let cs = custom3 in
  match f 0 with
  | "dw" -> dec_of_n (dw cw (ds (f 1)))
  | "wf" -> eword (word_from cw (ds (f 1)))
  | "ba" -> ewords (break_apart cw (n_of_dec (f 2)) (dword (f 1)))
  | "bw" -> ewords (break_words cw (n_of_dec (f 2)) (dwords (f 1)))
  | "fwa" -> ewords (find_words_ascii cw (ds (f 1)))
  | "fwu" -> ewords (find_words_unicode cw e.lbc (ds (f 1)))
  | "hp" -> enums (hyphen_points alnum (ds (f 1)))
  | "sw" ->
      let k = (match f 1 with "n" -> SplNone | "h" -> SplHyphen | _ -> SplCustom) in
      opt_or_panic ewords (split_words cw (split_points alnum cs k) (dwords (f 2)))
  | "walg" ->
      let a = (dopts ("0;lf;_;_;0;" ^ f 3 ^ ";a;n")).o_alg in
      opt_or_panic egroups (run_alg e.ofit a (dwords (f 1)) (List.map n_of_dec (dlist (f 2))))
  | "ff" ->
      let rq = first_fit numQ id (List.map (dfrag_with qconv) (dlist (f 1))) (List.map qconv (dlist (f 2))) in
      let sq = egroups rq in
      if all_int [f 1; f 2] then begin
        let rz = first_fit numZ id (List.map (dfrag_with zconv) (dlist (f 1))) (List.map zconv (dlist (f 2))) in
        if egroups rz <> sq then "INSTANCES-DISAGREE " ^ sq ^ " " ^ egroups rz else sq
      end else sq
  | "of" ->
      let p = dpen (f 3) in
      (* exact integers when every number is one (much faster than normalised rationals) *)
      if all_int [f 1; f 2] then
        opt_or_panic egroups (optimal_fit_smawk numZ (fun a b -> Z.eqb (Obj.obj a) (Obj.obj b)) id p (List.map (dfrag_with zconv) (dlist (f 1))) (List.map zconv (dlist (f 2))))
      else
      let rq = optimal_fit_smawk numQ (fun a b -> qeq_bool (Obj.obj a) (Obj.obj b)) id p (List.map (dfrag_with qconv) (dlist (f 1))) (List.map qconv (dlist (f 2))) in
      opt_or_panic egroups rq
  | "wrap" -> wrap_s e (dopts (f 1)) (ds (f 2))
  | "fill" -> opt_or_panic es (fill cw alnum e.lbc cs e.ofit (dopts (f 1)) (ds (f 2)))
  | "fill2" ->
      let o = dopts (f 1) in
      (match fill cw alnum e.lbc cs e.ofit o (ds (f 2)) with
       | None -> "PANIC"
       | Some a -> (match fill cw alnum e.lbc cs e.ofit o a with None -> "PANIC" | Some b -> es a ^ "\t" ^ es b))
  | "fills" ->
      let o = dopts (f 1) in
      opt_or_panic es (fill cw alnum e.lbc cs e.ofit o (ds (f 2))) ^ "\t"
      ^ opt_or_panic es (fill_slow cw alnum e.lbc cs e.ofit o (ds (f 2)))
  | "wsl" ->
      let o = dopts (f 1) and first = (f 2 = "1") and t = ds (f 3) in
      let canon ls = match t with [] -> List.map (fun l -> match l.l_cow with Borrowed _ -> { l with l_cow = BorrowedStatic } | _ -> l) ls | _ -> ls in
      opt_or_panic (fun l -> eolines (canon l)) (wrap_single_line cw alnum e.lbc cs e.ofit o first t) ^ "\t"
      ^ opt_or_panic (fun l -> eolines (canon l)) (slow_path cw alnum e.lbc cs e.ofit o first t)
  | "fip" ->
      let t = ds (f 1) and w = n_of_dec (f 2) in
      let o = { o_width = w; o_le = LE_LF; o_ii = []; o_si = []; o_bw = false; o_alg = FirstFit; o_sep = SepAscii; o_spl = SplNone } in
      opt_or_panic es (fill_inplace cw t w) ^ "\t" ^ wrap_s e o t
  | "unfill" -> unfill_s (ds (f 1))
  | "refill" -> opt_or_panic es (refill cw alnum e.lbc cs e.ofit (dopts (f 1)) (ds (f 2)))
  | "indent" -> es (indent (ds (f 1)) (ds (f 2)))
  | "dedent" -> es (dedent (ds (f 1)))
  | "wc" ->
      let o = dopts (f 1) and cols = n_of_dec (f 3) in
      let l = ds (f 4) and m = ds (f 5) and r = ds (f 6) in
      let inner = N.sub (N.sub (N.sub o.o_width (dw cw l)) (dw cw r)) (N.mul (dw cw m) (N.sub cols (n_of_int 1))) in
      let colw = (let q = fst (N.div_eucl inner cols) in if N.ltb q (n_of_int 1) then n_of_int 1 else q) in
      opt_or_panic estrs (wrap_columns cw alnum e.lbc cs e.ofit o (ds (f 2)) cols l m r)
      ^ "\t" ^ wrap_s e { o with o_width = colw } (ds (f 2))
  | "wrap8" ->
      let o = dopts (f 1) in
      let o2 = { o with o_ii = ds (f 2); o_si = ds (f 3) } in
      wrap_s e o (ds (f 4)) ^ "\t" ^ wrap_s e o2 (ds (f 4))
  | "wrap9" ->
      let o = dopts (f 1) and a = ds (f 2) and b = ds (f 3) and a2 = ds (f 4) in
      let le = le_str o.o_le in
      let ab = a @ le @ b and a2b = a2 @ le @ b in
      let t_lf = a @ [lF] @ b in
      let t_cr = List.concat_map (fun c -> if N.eqb c lF then [cR; lF] else [c]) t_lf in
      String.concat "\t"
        [ wrap_s e o a; wrap_s e o ab; wrap_s e o b; wrap_s e o a2b; fill_s e o ab;
          fill_s e { o with o_le = LE_LF } t_lf; fill_s e { o with o_le = LE_CRLF } t_cr; fill_s e o b ]
  | "wrap13" ->
      let o = dopts (f 1) and t = ds (f 2) in
      wrap_s e o t ^ "\t" ^ wrap_s e o (strip t)
  | "unfill15" ->
      let o = dopts (f 1) in
      let para = join [sP] (List.map ds (dlist (f 2))) in
      (match fill cw alnum e.lbc cs e.ofit o para with
       | None -> "PANIC"
       | Some fl ->
           let filled = if f 3 = "1" then fl @ le_str o.o_le else fl in
           es filled ^ "\t" ^ unfill_s filled)
  | "refill16" ->
      let o1 = dopts (f 1) and o2 = dopts (f 2) in
      let para = join [sP] (List.map ds (dlist (f 3))) in
      (match fill cw alnum e.lbc cs e.ofit o1 para with
       | None -> "PANIC"
       | Some fl ->
           let filled = if f 4 = "1" then fl @ le_str o1.o_le else fl in
           es filled ^ "\t" ^ opt_or_panic es (refill cw alnum e.lbc cs e.ofit o2 filled)
           ^ "\t" ^ fill_s e { o2 with o_ii = o1.o_ii; o_si = o1.o_si } para)
  | "dedent18" ->
      let t = ds (f 1) and p = ds (f 2) in
      let d = dedent t in
      es d ^ "\t" ^ es (dedent d) ^ "\t" ^ es (dedent (indent t p))
  | "std" ->
      let t = ds (f 1) in
      String.concat "\t"
        [ estrs (lines t); estrs (split_lf t); estrs (split_crlf t); estrs (split_terminator_lf t);
          es (trim_end_sp t); es (trim t); es (trim_end t); dec_of_n (blen t);
          (if ends_with t [lF] then "1" else "0"); (if ends_with t [cR; lF] then "1" else "0") ]
  | "api" ->
      (* what the documentation says about defaults, builders, equality and the error text *)
      let p = default_penalties in
      let pens = String.concat ":" (List.map dec_of_n [p.p_nline; p.p_overflow; p.p_frac; p.p_short; p.p_hyphen]) in
      let str_of s = es (List.map (fun c -> n_of_int (Char.code c)) (List.init (String.length s) (String.get s))) in
      String.concat "\t"
        ([ "1"; "1"; "1"; "1"; "1"; "0"; "17;a;_;_;1"; "1"; "1"; "1"; "9;a;3e.20;_;0"; "d.a" ]
         @ (if f 1 = "min" then [ "1"; "1" ]
            else [ pens; pens; "0"; "1"; "0"; "1"; "1"; "0"; "1"; str_of "wrap_optimal_fit cost computation overflowed" ]))
  | "ffx" | "ofx" | "ofu" -> "IMPL-ONLY"
  | op -> "UNKNOWN-OP " ^ op

(* "of": smawk decides ties, and outside C03's precondition it may even miss the
   optimum; equality of groups is then replaced by equality of exact cost (inside the
   precondition) or by nothing (outside: the shape is judged by L2/C06) *)
let of_equiv (fields : string array) (impl : string) : string =
  if impl = "PANIC" || impl = "ERR" || impl = "HANG" then "DIFF" else
  let fs = List.map (dfrag_with qconv) (dlist fields.(1)) and lws = List.map qconv (dlist fields.(2)) in
  let p = dpen fields.(3) in
  let ranges = List.map (fun (a, l) -> (nat_of_int a, nat_of_int (a + l))) (dgroups impl) in
  let ci : q = Obj.obj (arrangement_cost numQ p fs lws ranges) in
  if List.length fs > 400 then begin
    (* the quadratic reference search is too slow here: equal cost with the model's own answer is a tie *)
    match optimal_fit_smawk numQ (fun a b -> qeq_bool (Obj.obj a) (Obj.obj b)) id p fs lws with
    | Some mg ->
        let off = ref 0 in
        let mr = List.map (fun g -> let l = List.length g in let r = (nat_of_int !off, nat_of_int (!off + l)) in off := !off + l; r) mg in
        let cm : q = Obj.obj (arrangement_cost numQ p fs lws mr) in
        if qeq_bool ci cm then "ok-tie" else "DIFF"
    | None -> "DIFF"
  end else
  let co : q = Obj.obj (opt_cost numQ p fs lws) in
  if qeq_bool ci co then "ok-tie" else if c03_pre fs lws then "DIFF" else "ok-outside-c03"

(* a result with the Cow kinds erased: "B12:61.62" / "S:_" / "O:61" -> "L:..."; the hex
   encoding uses lower-case letters only, so B, S and O occur nowhere else *)
let bad_result (impl : string) = impl = "PANIC" || impl = "HANG" || impl = "ERR"
let erase_cow (s : string) : string =
  let b = Buffer.create (String.length s) in
  let n = String.length s in
  let i = ref 0 in
  while !i < n do
    let c = s.[!i] in
    if c = 'B' || c = 'S' || c = 'O' then begin
      let j = ref (!i + 1) in
      while !j < n && s.[!j] >= '0' && s.[!j] <= '9' do incr j done;
      if !j < n && s.[!j] = ':' && (c = 'B' || !j = !i + 1) then begin Buffer.add_string b "L:"; i := !j + 1 end
      else begin Buffer.add_char b c; incr i end
    end else begin Buffer.add_char b c; incr i end
  done;
  Buffer.contents b

(* ------------------------------------------------------------------ main loop *)
let () =
  cw_tbl := load_ranges Sys.argv.(1) 3;
  alnum_tbl := load_ranges Sys.argv.(2) 2;
  let lineno = ref 0 in
  (try
     while true do
       let line = input_line stdin in
       incr lineno;
       if String.length line > 0 && line.[0] <> '#' then begin
         (try
         let fields = Array.of_list (split_on '\t' line) in
         let n = Array.length fields in
         let find m = let r = ref n in Array.iteri (fun i x -> if x = m && !r = n then r := i) fields; !r in
         let cut = find "=>" in
         let ilbc = find "@lbc" and irec = find "@rec" in
         let nargs = min cut (min ilbc irec) in
         let args = Array.sub fields 0 nargs in
         let impl = if cut < n then String.concat "\t" (Array.to_list (Array.sub fields (cut + 1) (n - cut - 1))) else "" in
         oracle_bad := false;
         let lbc_tbl = parse_oracle (if ilbc + 1 < n then fields.(ilbc + 1) else "-") in
         let rec_tbl = parse_rec (if irec + 1 < n then fields.(irec + 1) else "-") in
         let e = { lbc = lbc_of lbc_tbl; ofit = ofit_of rec_tbl } in
         let verdict =
           try
             let m = model e args in
             if m = impl then ("ok", m)
             else if m = "IMPL-ONLY" then ("ok-impl-only", "")
             else if args.(0) = "of" then (of_equiv args impl, m)
             else if erase_cow m = erase_cow impl && not (bad_result impl) then ("ok-cowkind", m)
             else ("DIFF", m)
           with
           | Oracle_miss k -> ("ORACLE", "miss " ^ k)
           | Failure msg -> ("ERROR", msg)
           | Stack_overflow -> ("ERROR", "stack overflow")
           | ex -> ("ERROR", "exception " ^ Printexc.to_string ex)
         in
         Printf.printf "%d\tL1\t%s\t%s\n" !lineno (fst verdict) (snd verdict);
         if !oracle_bad then Printf.printf "%d\tASSUME\tlbc\tFAIL\tlinebreaks() violated an assumed property\n" !lineno;
         (try Checks.run !lineno e.lbc e.ofit args impl (if irec + 1 < n then fields.(irec + 1) else "-")
          with
          | Oracle_miss k -> Printf.printf "%d\tL2\t-\tskip\toracle miss %s\n" !lineno k
          | Failure msg -> Printf.printf "%d\tL2\t-\tERROR\t%s\n" !lineno msg
          | ex -> Printf.printf "%d\tL2\t-\tERROR\texception %s\n" !lineno (Printexc.to_string ex))
          with ex -> Printf.printf "%d\tL1\tERROR\tunparsable case (%s)\n" !lineno (Printexc.to_string ex))
       end
     done
   with End_of_file -> ());
  Printf.printf "0\tSTAT\trec\t%d recorded partitions, %d without record, %d equal to the model of smawk, %d equal to the reference DP\n" !rec_hits !rec_miss !rec_same_as_smawk !rec_same_as_dp;
  flush stdout
