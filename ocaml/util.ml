(* Reads case lines written by the Rust harness (op \t args... \t => \t impl result),
   evaluates the extracted Coq model on the same inputs (L1) and the extracted
   property checkers on the implementation's outputs (L2), and prints one verdict
   line per case and layer:
     <lineno> \t L1 \t ok|DIFF|ORACLE \t <model result>
     <lineno> \t L2 \t <prop> \t ok|FAIL|skip|known \t <detail>                      *)
open Model

(* ------------------------------------------------------------------ numbers *)
let rec pos_of_int (i : int) : positive =
  if i <= 1 then XH else if i land 1 = 0 then XO (pos_of_int (i lsr 1)) else XI (pos_of_int (i lsr 1))
let n_of_int (i : int) : n = if i <= 0 then N0 else Npos (pos_of_int i)
let z_of_int (i : int) : z = if i = 0 then Z0 else if i > 0 then Zpos (pos_of_int i) else Zneg (pos_of_int (-i))
let rec int_of_pos (p : positive) : int =
  match p with XH -> 1 | XO q -> 2 * int_of_pos q | XI q -> 2 * int_of_pos q + 1
let rec pos_bits (p : positive) : int = match p with XH -> 1 | XO q | XI q -> 1 + pos_bits q
let int_of_n (x : n) : int = match x with N0 -> 0 | Npos p -> int_of_pos p
let rec nat_of_int (i : int) : nat = if i <= 0 then O else S (nat_of_int (i - 1))
let rec int_of_nat (x : nat) : int = match x with O -> 0 | S k -> 1 + int_of_nat k
let ten = n_of_int 10
let n_of_dec (s : string) : n =
  let acc = ref N0 in
  String.iter (fun c -> acc := N.add (N.mul !acc ten) (n_of_int (Char.code c - 48))) s;
  !acc
let rec dec_of_n (x : n) : string =
  match x with
  | N0 -> "0"
  | Npos p when pos_bits p <= 60 -> string_of_int (int_of_pos p)
  | _ ->
      let (q, r) = N.div_eucl x ten in
      (match q with N0 -> "" | _ -> dec_of_n q) ^ string_of_int (int_of_n r)
let dec_of_z (x : z) : string =
  match x with Z0 -> "0" | Zpos p -> dec_of_n (Npos p) | Zneg p -> "-" ^ dec_of_n (Npos p)

(* ------------------------------------------------------------------ strings *)
let split_on c (s : string) : string list = String.split_on_char c s
let ds (f : string) : str =
  if f = "_" then [] else List.map (fun h -> n_of_int (int_of_string ("0x" ^ h))) (split_on '.' f)
let es (s : str) : string =
  match s with
  | [] -> "_"
  | _ -> String.concat "." (List.map (fun c -> Printf.sprintf "%x" (int_of_n c)) s)
let dlist (f : string) : string list = if f = "~" then [] else split_on ',' f
let elist (f : 'a -> string) (l : 'a list) : string =
  match l with [] -> "~" | _ -> String.concat "," (List.map f l)
let estrs (l : str list) = elist es l
let enums (l : n list) = elist dec_of_n l

let dword (f : string) : word =
  match split_on '/' f with
  | [a; b; c; d] -> { w_word = ds a; w_ws = ds b; w_pen = ds c; w_width = n_of_dec d }
  | _ -> failwith ("bad word " ^ f)
let eword (w : word) : string =
  Printf.sprintf "%s/%s/%s/%s" (es w.w_word) (es w.w_ws) (es w.w_pen) (dec_of_n w.w_width)
let ewords (l : word list) = elist eword l
let dwords (f : string) = List.map dword (dlist f)

let eoline (l : oline) : string =
  match l.l_cow with
  | Owned -> "O:" ^ es l.l_text
  | Borrowed off -> "B" ^ dec_of_n off ^ ":" ^ es l.l_text
  | BorrowedStatic -> "S:" ^ es l.l_text
let eolines (l : oline list) = elist eoline l
let opt_or_panic (f : 'a -> string) (o : 'a option) : string =
  match o with Some x -> f x | None -> "PANIC"

(* ------------------------------------------------------------------ tables *)
let load_ranges (file : string) (arity : int) : (int * int * int) array =
  let ic = open_in file in
  let acc = ref [] in
  (try
     while true do
       let l = input_line ic in
       match List.filter (fun x -> x <> "") (split_on ' ' l) with
       | [a; b; c] when arity = 3 -> acc := (int_of_string a, int_of_string b, int_of_string c) :: !acc
       | [a; b] when arity = 2 -> acc := (int_of_string a, int_of_string b, 1) :: !acc
       | _ -> ()
     done
   with End_of_file -> ());
  close_in ic;
  Array.of_list (List.rev !acc)
let lookup (tbl : (int * int * int) array) (default : int) (c : int) : int =
  let lo = ref 0 and hi = ref (Array.length tbl - 1) and res = ref default in
  while !lo <= !hi do
    let mid = (!lo + !hi) / 2 in
    let (a, b, w) = tbl.(mid) in
    if c < a then hi := mid - 1 else if c > b then lo := mid + 1 else (res := w; lo := !hi + 1)
  done;
  !res
let cw_tbl = ref [||]
let alnum_tbl = ref [||]
let small_n = Array.init 8 n_of_int
let cw (c : n) : n = small_n.(lookup !cw_tbl 0 (int_of_n c))
let alnum (c : n) : bool = lookup !alnum_tbl 0 (int_of_n c) = 1

(* ------------------------------------------------------------------ linebreak oracle *)
exception Oracle_miss of string
let oracle_bad = ref false
let parse_oracle (f : string) : (string, n list) Hashtbl.t =
  let h = Hashtbl.create 8 in
  if f <> "-" then
    List.iter
      (fun kv ->
        match split_on '=' kv with
        | [k; v] ->
            let k = if String.length k > 0 && k.[0] = '!' then (oracle_bad := true; String.sub k 1 (String.length k - 1)) else k in
            Hashtbl.replace h k (List.map n_of_dec (dlist v))
        | _ -> ())
      (split_on '|' f);
  h
let lbc_of (h : (string, n list) Hashtbl.t) (s : str) : n list =
  match s with
  | [] -> []            (* linebreaks("") is empty *)
  | _ -> (match Hashtbl.find_opt h (es s) with Some v -> v | None -> raise (Oracle_miss (es s)))

(* ------------------------------------------------------------------ options *)
let dopts (f : string) : options =
  match split_on ';' f with
  | [w; le; ii; si; bw; alg; sep; spl] ->
      { o_width = n_of_dec w;
        o_le = (if le = "crlf" then LE_CRLF else LE_LF);
        o_ii = ds ii; o_si = ds si; o_bw = (bw = "1");
        o_alg =
          (if alg = "ff" then FirstFit
           else
             match split_on ':' alg with
             | [_; a; b; c; d; e] ->
                 OptimalFit { p_nline = n_of_dec a; p_overflow = n_of_dec b; p_frac = n_of_dec c;
                              p_short = n_of_dec d; p_hyphen = n_of_dec e }
             | _ -> failwith "bad alg");
        o_sep = (if sep = "u" then SepUnicode else SepAscii);
        o_spl = (match spl with "n" -> SplNone | "h" -> SplHyphen | _ -> SplCustom) }
  | _ -> failwith ("bad options " ^ f)
let dpen (f : string) : penalties =
  match split_on ':' f with
  | [a; b; c; d; e] ->
      { p_nline = n_of_dec a; p_overflow = n_of_dec b; p_frac = n_of_dec c; p_short = n_of_dec d; p_hyphen = n_of_dec e }
  | _ -> failwith "bad penalties"

(* ------------------------------------------------------------------ fragments *)
(* rationals p/q or integers; both instances are run when everything is an integer *)
let is_int_num (f : string) = not (String.contains f '/')
let z_of_dec (s : string) : z =
  if String.length s > 0 && s.[0] = '-' then
    (match n_of_dec (String.sub s 1 (String.length s - 1)) with N0 -> Z0 | Npos p -> Zneg p)
  else (match n_of_dec s with N0 -> Z0 | Npos p -> Zpos p)
let dq (f : string) : q =
  match split_on '/' f with
  | [p; qd] -> qred { qnum = z_of_dec p; qden = pos_of_int (int_of_string qd) }
  | [p] -> { qnum = z_of_dec p; qden = XH }
  | _ -> failwith "bad num"
let dfrag_with (conv : string -> Obj.t) (f : string) : frag =
  match split_on ':' f with
  | [a; b; c] -> { fw = conv a; fws = conv b; fpen = conv c }
  | _ -> failwith "bad frag"
let qconv f = Obj.repr (dq f)
let zconv f = Obj.repr (z_of_dec f)
let egroups (gs : 'a list list) : string =
  let off = ref 0 in
  elist (fun g -> let l = List.length g in let s = Printf.sprintf "%d+%d" !off l in off := !off + l; s) gs
let all_int (fields : string list) =
  List.for_all (fun f -> List.for_all (fun t -> List.for_all is_int_num (split_on ':' t)) (dlist f)) fields

