From Coq Require Import List NArith Lia Bool.
Import ListNotations.
Local Open Scope N_scope.
Definition char := N.
Definition str := list char.
Definition ESC : char := 0x1b.
Definition is_final (c: char) : bool := (0x40 <=? c) && (c <=? 0x7e).
(* state of the code's skipper, seen as a one-pass machine *)
Inductive st := Normal | AfterEsc | Csi | Osc (last_is_esc: bool).
(* step returns the new state and whether the char is counted (visible) *)
Definition step (s: st) (c: char) : st * bool :=
  match s with
  | Normal => if c =? ESC then (AfterEsc, false) else (Normal, true)
  | AfterEsc => if c =? 0x5b then (Csi, false) else if c =? 0x5d then (Osc false, false) else (Normal, false)
  | Csi => if is_final c then (Normal, false) else (Csi, false)
  | Osc l => if (c =? 0x07) || ((c =? 0x5c) && l) then (Normal, false) else (Osc (c =? ESC), false)
  end.
Fixpoint run (s: st) (t: str) : list bool * st :=
  match t with [] => ([], s) | c :: r => let '(s', v) := step s c in let '(vs, sf) := run s' r in (v :: vs, sf) end.
Section W.
Variable cw : char -> N.
Fixpoint dw_from (s: st) (t: str) : N :=
  match t with [] => 0 | c :: r => let '(s', v) := step s c in (if v then cw c else 0) + dw_from s' r end.
Definition dw := dw_from Normal.
Fixpoint final_state (s: st) (t: str) : st := match t with [] => s | c :: r => final_state (fst (step s c)) r end.
Lemma dw_from_app s a b : dw_from s (a ++ b) = dw_from s a + dw_from (final_state s a) b.
Proof. revert s; induction a as [|c a IH]; intros s; cbn [app dw_from final_state]; [reflexivity|].
  destruct (step s c) as [s' v] eqn:E; cbn [fst]. rewrite IH. lia. Qed.
(* additivity when the cut is at a point where the machine is back in Normal *)
Corollary dw_cut a b : final_state Normal a = Normal -> dw (a ++ b) = dw a + dw b.
Proof. intros H. unfold dw. rewrite dw_from_app, H. reflexivity. Qed.
End W.
Require Extraction. Require ExtrOcamlBasic.
Extraction "esc.ml" dw.
