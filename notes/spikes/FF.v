From Coq Require Import List Lia Bool ZArith.
Import ListNotations.
Set Implicit Arguments.

(* law-free numeric structure: f64, Z, Q all fit *)
Record Num := { num : Type; zero : num; add : num -> num -> num; gtb : num -> num -> bool }.

Section FF.
Variable N_ : Num.
Notation T := (num N_).
Record frag := { fw : T; fws : T; fpen : T }.

Definition nth_width (lws : list T) (k : nat) : T :=
  nth k lws (last lws (zero N_)).

(* wrap_first_fit, wrap_algorithms.rs:336-357.  State: finished lines (reversed),
   current line (reversed), accumulated width. "idx > start" == current line non-empty. *)
Fixpoint ff_loop (lws : list T) (frs : list frag) (done : list (list frag)) (cur : list frag) (width : T)
  : list (list frag) :=
  match frs with
  | [] => rev (rev cur :: done)
  | f :: rest =>
      let lw := nth_width lws (length done) in
      if gtb N_ (add N_ (add N_ width (fw f)) (fpen f)) lw && negb (match cur with [] => true | _ => false end)
      then ff_loop lws rest (rev cur :: done) [f] (add N_ (add N_ (zero N_) (fw f)) (fws f))
      else ff_loop lws rest done (f :: cur) (add N_ (add N_ width (fw f)) (fws f))
  end.
Definition first_fit (frs : list frag) (lws : list T) := ff_loop lws frs [] [] (zero N_).

Lemma ff_loop_concat lws frs : forall done cur w,
  concat (ff_loop lws frs done cur w) = concat (rev done) ++ rev cur ++ frs.
Proof.
  induction frs as [|f rest IH]; intros done cur w; cbn [ff_loop].
  - cbn [rev]. rewrite concat_app. cbn. now rewrite !app_nil_r.
  - destruct (_ && _).
    + rewrite IH. cbn [rev]. rewrite concat_app. cbn. rewrite ?app_nil_r. now rewrite <- !app_assoc.
    + rewrite IH. cbn [rev]. now rewrite <- !app_assoc.
Qed.
Theorem first_fit_concat frs lws : concat (first_fit frs lws) = frs.
Proof. unfold first_fit. now rewrite ff_loop_concat. Qed.

Lemma ff_loop_nonempty lws frs : forall done cur w,
  Forall (fun l => l <> []) done -> (cur <> [] \/ frs <> [] -> Forall (fun l => l <> []) (ff_loop lws frs done cur w)).
Proof.
  induction frs as [|f rest IH]; intros done cur w Hd Hne; cbn [ff_loop].
  - apply Forall_rev. constructor; [|exact Hd].
    destruct Hne as [H|H]; [|congruence]. intro E. apply H. now rewrite <- (rev_involutive cur), E.
  - destruct cur as [|c cur']; cbn [negb andb].
    + rewrite andb_false_r. apply IH; [exact Hd| left; discriminate].
    + destruct (gtb _ _ _); cbn [andb].
      * apply IH; [|left; discriminate]. constructor; [|exact Hd].
        intro E. apply (f_equal (@rev _)) in E. rewrite rev_involutive in E. discriminate.
      * apply IH; [exact Hd|left; discriminate].
Qed.
End FF.
Check first_fit_concat.
Print Assumptions first_fit_concat.
