import itertools
ESC,LB,RB,M,BEL,BS,A,P='E','[',']','m','\a','\\','a',';'
def dw(s):
    st='N'; last=False; w=0
    for c in s:
        if st=='N':
            if c==ESC: st='A'
            else: w+=1 if c!=BEL else 0
        elif st=='A':
            st = 'C' if c==LB else ('O' if c==RB else 'N'); last=False
        elif st=='C':
            if c in (M,LB,RB,BS,A): st='N'   # final bytes 0x40..0x7e: '[' ']' '\\' 'a' 'm' all finals; ';' not
        elif st=='O':
            if c==BEL or (c==BS and last): st='N'
            else: last = (c==ESC)
    return w
# WF grammar: items: plain char (not ESC) | CSI = E [ (non-final, non-ESC)* final | OSC = E ] payload(no ESC, no BEL) (BEL | E \)
finals=[M,LB,RB,BS,A]; nonfinal=[P,BEL]  # BEL (0x07) is non-final
plain=[A,P,M,BS,LB,RB]  # BEL excluded from plain to keep width simple? include:
plain=[A,P,M,BS,LB,RB,BEL]
def gen_items(maxlen):
    items=[[c] for c in plain]
    for k in range(0,3):
        for mid in itertools.product(nonfinal,repeat=k):
            for f in finals: items.append([ESC,LB,*mid,f])
    payload_chars=[A,P,M,LB,RB,BS]
    for k in range(0,3):
        for mid in itertools.product(payload_chars,repeat=k):
            items.append([ESC,RB,*mid,BEL]); items.append([ESC,RB,*mid,ESC,BS])
    return items
items=gen_items(3)
bad=0; n=0
def rec(prefix,depth):
    global bad,n
    if depth==0: return
    for it in items:
        s=prefix+it
        if len(s)>9: continue
        n+=1
        whole=dw(s)
        # all 2-cuts and 3-cuts
        L=len(s)
        for i in range(0,L+1):
            if dw(s[:i])+dw(s[i:])<whole: bad+=1; print("BAD2",repr(''.join(s)),i); 
            for j in range(i,L+1):
                if dw(s[:i])+dw(s[i:j])+dw(s[j:])<whole:
                    bad+=1
                    if bad<10: print("BAD3",repr(''.join(s)),i,j)
        rec(s,depth-1)
rec([],3)
print(n,bad)
