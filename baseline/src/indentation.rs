//! Functions related to adding and removing indentation from lines of
//! text.
//!
//! The functions here can be used to uniformly indent or dedent
//! (unindent) word wrapped lines of text.

/// Indent each line by the given prefix.
///
/// # Examples
///
/// ```
/// use textwrap::indent;
///
/// assert_eq!(indent("First line.\nSecond line.\n", "  "),
///            "  First line.\n  Second line.\n");
/// ```
///
/// When indenting, trailing whitespace is stripped from the prefix.
/// This means that empty lines remain empty afterwards:
///
/// ```
/// use textwrap::indent;
///
/// assert_eq!(indent("First line.\n\n\nSecond line.\n", "  "),
///            "  First line.\n\n\n  Second line.\n");
/// ```
///
/// Notice how `"\n\n\n"` remained as `"\n\n\n"`.
///
/// This feature is useful when you want to indent text and have a
/// space between your prefix and the text. In this case, you _don't_
/// want a trailing space on empty lines:
///
/// ```
/// use textwrap::indent;
///
/// assert_eq!(indent("foo = 123\n\nprint(foo)\n", "# "),
///            "# foo = 123\n#\n# print(foo)\n");
/// ```
///
/// Notice how `"\n\n"` became `"\n#\n"` instead of `"\n# \n"` which
/// would have trailing whitespace.
///
/// Leading and trailing whitespace coming from the text itself is
/// kept unchanged:
///
/// ```
/// use textwrap::indent;
///
/// assert_eq!(indent(" \t  Foo   ", "->"), "-> \t  Foo   ");
/// ```
pub fn indent(s: &str, prefix: &str) -> String {
    // We know we'll need more than s.len() bytes for the output, but
    // without counting '\n' characters (which is somewhat slow), we
    // don't know exactly how much. However, we can preemptively do
    // the first doubling of the output size.
    let mut result = String::with_capacity(2 * s.len());
    let trimmed_prefix = prefix.trim_end();
    for (idx, line) in s.split_terminator('\n').enumerate() {
        if idx > 0 {
            result.push('\n');
        }
        if line.trim().is_empty() {
            result.push_str(trimmed_prefix);
        } else {
            result.push_str(prefix);
        }
        result.push_str(line);
    }
    if s.ends_with('\n') {
        // split_terminator will have eaten the final '\n'.
        result.push('\n');
    }
    result
}

/// Removes common leading whitespace from each line.
///
/// This function will look at each non-empty line and determine the
/// maximum amount of whitespace that can be removed from all lines:
///
/// ```
/// use textwrap::dedent;
///
/// assert_eq!(dedent("
///     1st line
///       2nd line
///     3rd line
/// "), "
/// 1st line
///   2nd line
/// 3rd line
/// ");
/// ```
pub fn dedent(s: &str) -> String {
    let mut prefix = "";
    let mut lines = s.lines();

    // We first search for a non-empty line to find a prefix.
    for line in &mut lines {
        let mut whitespace_idx = line.len();
        for (idx, ch) in line.char_indices() {
            if !ch.is_whitespace() {
                whitespace_idx = idx;
                break;
            }
        }

        // Check if the line had anything but whitespace
        if whitespace_idx < line.len() {
            prefix = &line[..whitespace_idx];
            break;
        }
    }

    // We then continue looking through the remaining lines to
    // possibly shorten the prefix.
    for line in &mut lines {
        let mut whitespace_idx = line.len();
        for ((idx, a), b) in line.char_indices().zip(prefix.chars()) {
            if a != b {
                whitespace_idx = idx;
                break;
            }
        }

        // Check if the line had anything but whitespace and if we
        // have found a shorter prefix
        if whitespace_idx < line.len()
            && whitespace_idx < prefix.len()
            && line.chars().any(|c| !c.is_whitespace())
        {
            prefix = &line[..whitespace_idx];
        }
    }

    // We now go over the lines a second time to build the result.
    let mut result = String::new();
    for line in s.lines() {
        if line.starts_with(prefix) && line.chars().any(|c| !c.is_whitespace()) {
            let (_, tail) = line.split_at(prefix.len());
            result.push_str(tail);
        }
        result.push('\n');
    }

    if result.ends_with('\n') && !s.ends_with('\n') {
        let new_len = result.len() - 1;
        result.truncate(new_len);
    }

    result
}

#[cfg(test)]
mod tests {
    use super::*;

    #[test]
    fn indent_empty() {
        assert_eq!(indent("\n", "  "), "\n");
    }

    #[test]
    #[rustfmt::skip]
    fn indent_nonempty() {
        let text = [
            "  foo\n",
            "bar\n",
            "  baz\n",
        ].join("");
        let expected = [
            "//   foo\n",
            "// bar\n",
            "//   baz\n",
        ].join("");
        assert_eq!(indent(&text, "// "), expected);
    }

    #[test]
    #[rustfmt::skip]
    fn indent_empty_line() {
        let text = [
            "  foo",
            "bar",
            "",
            "  baz",
        ].join("\n");
        let expected = [
            "//   foo",
            "// bar",
            "//",
            "//   baz",
        ].join("\n");
        assert_eq!(indent(&text, "// "), expected);
    }

    #[test]
    fn dedent_empty() {
        assert_eq!(dedent(""), "");
    }

    #[test]
    #[rustfmt::skip]
    fn dedent_multi_line() {
        let x = [
            "    foo",
            "  bar",
            "    baz",
        ].join("\n");
        let y = [
            "  foo",
            "bar",
            "  baz"
        ].join("\n");
        assert_eq!(dedent(&x), y);
    }

    #[test]
    #[rustfmt::skip]
    fn dedent_empty_line() {
        let x = [
            "    foo",
            "  bar",
            "   ",
            "    baz"
        ].join("\n");
        let y = [
            "  foo",
            "bar",
            "",
            "  baz"
        ].join("\n");
        assert_eq!(dedent(&x), y);
    }

    #[test]
    #[rustfmt::skip]
    fn dedent_blank_line() {
        let x = [
            "      foo",
            "",
            "        bar",
            "          foo",
            "          bar",
            "          baz",
        ].join("\n");
        let y = [
            "foo",
            "",
            "  bar",
            "    foo",
            "    bar",
            "    baz",
        ].join("\n");
        assert_eq!(dedent(&x), y);
    }

    #[test]
    #[rustfmt::skip]
    fn dedent_whitespace_line() {
        let x = [
            "      foo",
            " ",
            "        bar",
            "          foo",
            "          bar",
            "          baz",
        ].join("\n");
        let y = [
            "foo",
            "",
            "  bar",
            "    foo",
            "    bar",
            "    baz",
        ].join("\n");
        assert_eq!(dedent(&x), y);
    }

    #[test]
    #[rustfmt::skip]
    fn dedent_mixed_whitespace() {
        let x = [
            "\tfoo",
            "  bar",
        ].join("\n");
        let y = [
            "\tfoo",
            "  bar",
        ].join("\n");
        assert_eq!(dedent(&x), y);
    }

    #[test]
    #[rustfmt::skip]
    fn dedent_tabbed_whitespace() {
        let x = [
            "\t\tfoo",
            "\t\t\tbar",
        ].join("\n");
        let y = [
            "foo",
            "\tbar",
        ].join("\n");
        assert_eq!(dedent(&x), y);
    }

    #[test]
    #[rustfmt::skip]
    fn dedent_mixed_tabbed_whitespace() {
        let x = [
            "\t  \tfoo",
            "\t  \t\tbar",
        ].join("\n");
        let y = [
            "foo",
            "\tbar",
        ].join("\n");
        assert_eq!(dedent(&x), y);
    }

    #[test]
    #[rustfmt::skip]
    fn dedent_mixed_tabbed_whitespace2() {
        let x = [
            "\t  \tfoo",
            "\t    \tbar",
        ].join("\n");
        let y = [
            "\tfoo",
            "  \tbar",
        ].join("\n");
        assert_eq!(dedent(&x), y);
    }

    #[test]
    #[rustfmt::skip]
    fn dedent_preserve_no_terminating_newline() {
        let x = [
            "  foo",
            "    bar",
        ].join("\n");
        let y = [
            "foo",
            "  bar",
        ].join("\n");
        assert_eq!(dedent(&x), y);
    }
}
