//! Word wrapping algorithms.
//!
//! After a text has been broken into words (or [`Fragment`]s), one
//! now has to decide how to break the fragments into lines. The
//! simplest algorithm for this is implemented by
//! [`wrap_first_fit()`]: it uses no look-ahead and simply adds
//! fragments to the line as long as they fit. However, this can lead
//! to poor line breaks if a large fragment almost-but-not-quite fits
//! on a line. When that happens, the fragment is moved to the next
//! line and it will leave behind a large gap.
//!
//! A more advanced algorithm, implemented by [`wrap_optimal_fit()`],
//! will take this into account. The optimal-fit algorithm considers
//! all possible line breaks and will attempt to minimize the gaps
//! left behind by overly short lines.
//!
//! While both algorithms run in linear time, the first-fit algorithm
//! is about 4 times faster than the optimal-fit algorithm.

#[cfg(feature = "smawk")]
mod optimal_fit;
#[cfg(feature = "smawk")]
pub use optimal_fit::{wrap_optimal_fit, OverflowError, Penalties};

use crate::core::{Fragment, Word};

/// Describes how to wrap words into lines.
///
/// The simplest approach is to wrap words one word at a time and
/// accept the first way of wrapping which fit
/// ([`WrapAlgorithm::FirstFit`]). If the `smawk` Cargo feature is
/// enabled, a more complex algorithm is available which will look at
/// an entire paragraph at a time in order to find optimal line breaks
/// ([`WrapAlgorithm::OptimalFit`]).
#[derive(Clone, Copy, Debug)]
pub enum WrapAlgorithm {
    /// Wrap words using a fast and simple algorithm.
    ///
    /// This algorithm uses no look-ahead when finding line breaks.
    /// Implemented by [`wrap_first_fit()`], please see that function
    /// for details and examples.
    FirstFit,

    /// Wrap words using an advanced algorithm with look-ahead.
    ///
    /// This wrapping algorithm considers the entire paragraph to find
    /// optimal line breaks. When wrapping text, "penalties" are
    /// assigned to line breaks based on the gaps left at the end of
    /// lines. See [`Penalties`] for details.
    ///
    /// The underlying wrapping algorithm is implemented by
    /// [`wrap_optimal_fit()`], please see that function for examples.
    ///
    /// **Note:** Only available when the `smawk` Cargo feature is
    /// enabled.
    #[cfg(feature = "smawk")]
    OptimalFit(Penalties),

    /// Custom wrapping function.
    ///
    /// Use this if you want to implement your own wrapping algorithm.
    /// The function can freely decide how to turn a slice of
    /// [`Word`]s into lines.
    ///
    /// # Example
    ///
    /// ```
    /// use textwrap::core::Word;
    /// use textwrap::{wrap, Options, WrapAlgorithm};
    ///
    /// fn stair<'a, 'b>(words: &'b [Word<'a>], _: &'b [usize]) -> Vec<&'b [Word<'a>]> {
    ///     let mut lines = Vec::new();
    ///     let mut step = 1;
    ///     let mut start_idx = 0;
    ///     while start_idx + step <= words.len() {
    ///       lines.push(&words[start_idx .. start_idx+step]);
    ///       start_idx += step;
    ///       step += 1;
    ///     }
    ///     lines
    /// }
    ///
    /// let options = Options::new(10).wrap_algorithm(WrapAlgorithm::Custom(stair));
    /// assert_eq!(wrap("First, second, third, fourth, fifth, sixth", options),
    ///            vec!["First,",
    ///                 "second, third,",
    ///                 "fourth, fifth, sixth"]);
    /// ```
    Custom(for<'a, 'b> fn(words: &'b [Word<'a>], line_widths: &'b [usize]) -> Vec<&'b [Word<'a>]>),
}

impl PartialEq for WrapAlgorithm {
    /// Compare two wrap algorithms.
    ///
    /// ```
    /// use textwrap::WrapAlgorithm;
    ///
    /// assert_eq!(WrapAlgorithm::FirstFit, WrapAlgorithm::FirstFit);
    /// #[cfg(feature = "smawk")] {
    ///     assert_eq!(WrapAlgorithm::new_optimal_fit(), WrapAlgorithm::new_optimal_fit());
    /// }
    /// ```
    ///
    /// Note that `WrapAlgorithm::Custom` values never compare equal:
    ///
    /// ```
    /// use textwrap::WrapAlgorithm;
    ///
    /// assert_ne!(WrapAlgorithm::Custom(|words, line_widths| vec![words]),
    ///            WrapAlgorithm::Custom(|words, line_widths| vec![words]));
    /// ```
    fn eq(&self, other: &Self) -> bool {
        match (self, other) {
            (WrapAlgorithm::FirstFit, WrapAlgorithm::FirstFit) => true,
            #[cfg(feature = "smawk")]
            (WrapAlgorithm::OptimalFit(a), WrapAlgorithm::OptimalFit(b)) => a == b,
            (_, _) => false,
        }
    }
}

impl WrapAlgorithm {
    /// Create new wrap algorithm.
    ///
    /// The best wrapping algorithm is used by default, i.e.,
    /// [`WrapAlgorithm::OptimalFit`] if available, otherwise
    /// [`WrapAlgorithm::FirstFit`].
    pub const fn new() -> Self {
        #[cfg(not(feature = "smawk"))]
        {
            WrapAlgorithm::FirstFit
        }

        #[cfg(feature = "smawk")]
        {
            WrapAlgorithm::new_optimal_fit()
        }
    }

    /// New [`WrapAlgorithm::OptimalFit`] with default penalties. This
    /// works well for monospace text.
    ///
    /// **Note:** Only available when the `smawk` Cargo feature is
    /// enabled.
    #[cfg(feature = "smawk")]
    pub const fn new_optimal_fit() -> Self {
        WrapAlgorithm::OptimalFit(Penalties::new())
    }

    /// Wrap words according to line widths.
    ///
    /// The `line_widths` slice gives the target line width for each
    /// line (the last slice element is repeated as necessary). This
    /// can be used to implement hanging indentation.
    #[inline]
    pub fn wrap<'a, 'b>(
        &self,
        words: &'b [Word<'a>],
        line_widths: &'b [usize],
    ) -> Vec<&'b [Word<'a>]> {
        // Every integer up to 2u64.pow(f64::MANTISSA_DIGITS) = 2**53
        // = 9_007_199_254_740_992 can be represented without loss by
        // a f64. Larger line widths will be rounded to the nearest
        // representable number.
        let f64_line_widths = line_widths.iter().map(|w| *w as f64).collect::<Vec<_>>();

        match self {
            WrapAlgorithm::FirstFit => wrap_first_fit(words, &f64_line_widths),

            #[cfg(feature = "smawk")]
            WrapAlgorithm::OptimalFit(penalties) => {
                // The computation cannot overflow when the line
                // widths are restricted to usize.
                wrap_optimal_fit(words, &f64_line_widths, penalties).unwrap()
            }

            WrapAlgorithm::Custom(func) => func(words, line_widths),
        }
    }
}

impl Default for WrapAlgorithm {
    fn default() -> Self {
        WrapAlgorithm::new()
    }
}

/// Wrap abstract fragments into lines with a first-fit algorithm.
///
/// The `line_widths` slice gives the target line width for each line
/// (the last slice element is repeated as necessary). This can be
/// used to implement hanging indentation.
///
/// The fragments must already have been split into the desired
/// widths, this function will not (and cannot) attempt to split them
/// further when arranging them into lines.
///
/// # First-Fit Algorithm
///
/// This implements a simple “greedy” algorithm: accumulate fragments
/// one by one and when a fragment no longer fits, start a new line.
/// There is no look-ahead, we simply take first fit of the fragments
/// we find.
///
/// While fast and predictable, this algorithm can produce poor line
/// breaks when a long fragment is moved to a new line, leaving behind
/// a large gap:
///
/// ```
/// use textwrap::core::Word;
/// use textwrap::wrap_algorithms::wrap_first_fit;
/// use textwrap::WordSeparator;
///
/// // Helper to convert wrapped lines to a Vec<String>.
/// fn lines_to_strings(lines: Vec<&[Word<'_>]>) -> Vec<String> {
///     lines.iter().map(|line| {
///         line.iter().map(|word| &**word).collect::<Vec<_>>().join(" ")
///     }).collect::<Vec<_>>()
/// }
///
/// let text = "These few words will unfortunately not wrap nicely.";
/// let words = WordSeparator::AsciiSpace.find_words(text).collect::<Vec<_>>();
/// assert_eq!(lines_to_strings(wrap_first_fit(&words, &[15.0])),
///            vec!["These few words",
///                 "will",  // <-- short line
///                 "unfortunately",
///                 "not wrap",
///                 "nicely."]);
///
/// // We can avoid the short line if we look ahead:
/// #[cfg(feature = "smawk")]
/// use textwrap::wrap_algorithms::{wrap_optimal_fit, Penalties};
/// #[cfg(feature = "smawk")]
/// assert_eq!(lines_to_strings(wrap_optimal_fit(&words, &[15.0], &Penalties::new()).unwrap()),
///            vec!["These few",
///                 "words will",
///                 "unfortunately",
///                 "not wrap",
///                 "nicely."]);
/// ```
///
/// The [`wrap_optimal_fit()`] function was used above to get better
/// line breaks. It uses an advanced algorithm which tries to avoid
/// short lines. This function is about 4 times faster than
/// [`wrap_optimal_fit()`].
///
/// # Examples
///
/// Imagine you're building a house site and you have a number of
/// tasks you need to execute. Things like pour foundation, complete
/// framing, install plumbing, electric cabling, install insulation.
///
/// The construction workers can only work during daytime, so they
/// need to pack up everything at night. Because they need to secure
/// their tools and move machines back to the garage, this process
/// takes much more time than the time it would take them to simply
/// switch to another task.
///
/// You would like to make a list of tasks to execute every day based
/// on your estimates. You can model this with a program like this:
///
/// ```
/// use textwrap::core::{Fragment, Word};
/// use textwrap::wrap_algorithms::wrap_first_fit;
///
/// #[derive(Debug)]
/// struct Task<'a> {
///     name: &'a str,
///     hours: f64,   // Time needed to complete task.
///     sweep: f64,   // Time needed for a quick sweep after task during the day.
///     cleanup: f64, // Time needed for full cleanup if day ends with this task.
/// }
///
/// impl Fragment for Task<'_> {
///     fn width(&self) -> f64 { self.hours }
///     fn whitespace_width(&self) -> f64 { self.sweep }
///     fn penalty_width(&self) -> f64 { self.cleanup }
/// }
///
/// // The morning tasks
/// let tasks = vec![
///     Task { name: "Foundation",  hours: 4.0, sweep: 2.0, cleanup: 3.0 },
///     Task { name: "Framing",     hours: 3.0, sweep: 1.0, cleanup: 2.0 },
///     Task { name: "Plumbing",    hours: 2.0, sweep: 2.0, cleanup: 2.0 },
///     Task { name: "Electrical",  hours: 2.0, sweep: 1.0, cleanup: 2.0 },
///     Task { name: "Insulation",  hours: 2.0, sweep: 1.0, cleanup: 2.0 },
///     Task { name: "Drywall",     hours: 3.0, sweep: 1.0, cleanup: 2.0 },
///     Task { name: "Floors",      hours: 3.0, sweep: 1.0, cleanup: 2.0 },
///     Task { name: "Countertops", hours: 1.0, sweep: 1.0, cleanup: 2.0 },
///     Task { name: "Bathrooms",   hours: 2.0, sweep: 1.0, cleanup: 2.0 },
/// ];
///
/// // Fill tasks into days, taking `day_length` into account. The
/// // output shows the hours worked per day along with the names of
/// // the tasks for that day.
/// fn assign_days<'a>(tasks: &[Task<'a>], day_length: f64) -> Vec<(f64, Vec<&'a str>)> {
///     let mut days = Vec::new();
///     // Assign tasks to days. The assignment is a vector of slices,
///     // with a slice per day.
///     let assigned_days: Vec<&[Task<'a>]> = wrap_first_fit(&tasks, &[day_length]);
///     for day in assigned_days.iter() {
///         let last = day.last().unwrap();
///         let work_hours: f64 = day.iter().map(|t| t.hours + t.sweep).sum();
///         let names = day.iter().map(|t| t.name).collect::<Vec<_>>();
///         days.push((work_hours - last.sweep + last.cleanup, names));
///     }
///     days
/// }
///
/// // With a single crew working 8 hours a day:
/// assert_eq!(
///     assign_days(&tasks, 8.0),
///     [
///         (7.0, vec!["Foundation"]),
///         (8.0, vec!["Framing", "Plumbing"]),
///         (7.0, vec!["Electrical", "Insulation"]),
///         (5.0, vec!["Drywall"]),
///         (7.0, vec!["Floors", "Countertops"]),
///         (4.0, vec!["Bathrooms"]),
///     ]
/// );
///
/// // With two crews working in shifts, 16 hours a day:
/// assert_eq!(
///     assign_days(&tasks, 16.0),
///     [
///         (14.0, vec!["Foundation", "Framing", "Plumbing"]),
///         (15.0, vec!["Electrical", "Insulation", "Drywall", "Floors"]),
///         (6.0, vec!["Countertops", "Bathrooms"]),
///     ]
/// );
/// ```
///
/// Apologies to anyone who actually knows how to build a house and
/// knows how long each step takes :-)
pub fn wrap_first_fit<'a, T: Fragment>(fragments: &'a [T], line_widths: &[f64]) -> Vec<&'a [T]> {
    // The final line width is used for all remaining lines.
    let default_line_width = line_widths.last().copied().unwrap_or(0.0);
    let mut lines = Vec::new();
    let mut start = 0;
    let mut width = 0.0;

    for (idx, fragment) in fragments.iter().enumerate() {
        let line_width = line_widths
            .get(lines.len())
            .copied()
            .unwrap_or(default_line_width);
        if width + fragment.width() + fragment.penalty_width() > line_width && idx > start {
            lines.push(&fragments[start..idx]);
            start = idx;
            width = 0.0;
        }
        width += fragment.width() + fragment.whitespace_width();
    }
    lines.push(&fragments[start..]);
    lines
}

#[cfg(test)]
mod tests {
    use super::*;

    #[derive(Debug, PartialEq)]
    struct Word(f64);

    #[rustfmt::skip]
    impl Fragment for Word {
        fn width(&self) -> f64 { self.0 }
        fn whitespace_width(&self) -> f64 { 1.0 }
        fn penalty_width(&self) -> f64 { 0.0 }
    }

    #[test]
    fn wrap_string_longer_than_f64() {
        let words = vec![
            Word(1e307),
            Word(2e307),
            Word(3e307),
            Word(4e307),
            Word(5e307),
            Word(6e307),
        ];
        // Wrap at just under f64::MAX (~19e307). The tiny
        // whitespace_widths disappear because of loss of precision.
        assert_eq!(
            wrap_first_fit(&words, &[15e307]),
            &[
                vec![
                    Word(1e307),
                    Word(2e307),
                    Word(3e307),
                    Word(4e307),
                    Word(5e307)
                ],
                vec![Word(6e307)]
            ]
        );
    }
}
