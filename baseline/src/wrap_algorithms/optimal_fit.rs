use std::cell::RefCell;

use crate::core::Fragment;

/// Penalties for
/// [`WrapAlgorithm::OptimalFit`](crate::WrapAlgorithm::OptimalFit)
/// and [`wrap_optimal_fit`].
///
/// This wrapping algorithm in [`wrap_optimal_fit`] considers the
/// entire paragraph to find optimal line breaks. When wrapping text,
/// "penalties" are assigned to line breaks based on the gaps left at
/// the end of lines. The penalties are given by this struct, with
/// [`Penalties::default`] assigning penalties that work well for
/// monospace text.
///
/// If you are wrapping proportional text, you are advised to assign
/// your own penalties according to your font size. See the individual
/// penalties below for details.
///
/// **Note:** Only available when the `smawk` Cargo feature is
/// enabled.
#[derive(Clone, Copy, Debug, PartialEq, Eq)]
pub struct Penalties {
    /// Per-line penalty. This is added for every line, which makes it
    /// expensive to output more lines than the minimum required.
    pub nline_penalty: usize,

    /// Per-character cost for lines that overflow the target line width.
    ///
    /// With a default value of 50², every single character costs as
    /// much as leaving a gap of 50 characters behind. This is because
    /// we assign as cost of `gap * gap` to a short line. When
    /// wrapping monospace text, we can overflow the line by 1
    /// character in extreme cases:
    ///
    /// ```
    /// use textwrap::core::Word;
    /// use textwrap::wrap_algorithms::{wrap_optimal_fit, Penalties};
    ///
    /// let short = "foo ";
    /// let long = "x".repeat(50);
    /// let length = (short.len() + long.len()) as f64;
    /// let fragments = vec![Word::from(short), Word::from(&long)];
    /// let penalties = Penalties::new();
    ///
    /// // Perfect fit, both words are on a single line with no overflow.
    /// let wrapped = wrap_optimal_fit(&fragments, &[length], &penalties).unwrap();
    /// assert_eq!(wrapped, vec![&[Word::from(short), Word::from(&long)]]);
    ///
    /// // The words no longer fit, yet we get a single line back. While
    /// // the cost of overflow (`1 * 2500`) is the same as the cost of the
    /// // gap (`50 * 50 = 2500`), the tie is broken by `nline_penalty`
    /// // which makes it cheaper to overflow than to use two lines.
    /// let wrapped = wrap_optimal_fit(&fragments, &[length - 1.0], &penalties).unwrap();
    /// assert_eq!(wrapped, vec![&[Word::from(short), Word::from(&long)]]);
    ///
    /// // The cost of overflow would be 2 * 2500, whereas the cost of
    /// // the gap is only `49 * 49 + nline_penalty = 2401 + 1000 =
    /// // 3401`. We therefore get two lines.
    /// let wrapped = wrap_optimal_fit(&fragments, &[length - 2.0], &penalties).unwrap();
    /// assert_eq!(wrapped, vec![&[Word::from(short)],
    ///                          &[Word::from(&long)]]);
    /// ```
    ///
    /// This only happens if the overflowing word is 50 characters
    /// long _and_ if the word overflows the line by exactly one
    /// character. If it overflows by more than one character, the
    /// overflow penalty will quickly outgrow the cost of the gap, as
    /// seen above.
    pub overflow_penalty: usize,

    /// When should the a single word on the last line be considered
    /// "too short"?
    ///
    /// If the last line of the text consist of a single word and if
    /// this word is shorter than `1 / short_last_line_fraction` of
    /// the line width, then the final line will be considered "short"
    /// and `short_last_line_penalty` is added as an extra penalty.
    ///
    /// The effect of this is to avoid a final line consisting of a
    /// single small word. For example, with a
    /// `short_last_line_penalty` of 25 (the default), a gap of up to
    /// 5 columns will be seen as more desirable than having a final
    /// short line.
    ///
    /// ## Examples
    ///
    /// ```
    /// use textwrap::{wrap, wrap_algorithms, Options, WrapAlgorithm};
    ///
    /// let text = "This is a demo of the short last line penalty.";
    ///
    /// // The first-fit algorithm leaves a single short word on the last line:
    /// assert_eq!(wrap(text, Options::new(37).wrap_algorithm(WrapAlgorithm::FirstFit)),
    ///            vec!["This is a demo of the short last line",
    ///                 "penalty."]);
    ///
    /// #[cfg(feature = "smawk")] {
    /// let mut penalties = wrap_algorithms::Penalties::new();
    ///
    /// // Since "penalty." is shorter than 25% of the line width, the
    /// // optimal-fit algorithm adds a penalty of 25. This is enough
    /// // to move "line " down:
    /// assert_eq!(wrap(text, Options::new(37).wrap_algorithm(WrapAlgorithm::OptimalFit(penalties))),
    ///            vec!["This is a demo of the short last",
    ///                 "line penalty."]);
    ///
    /// // We can change the meaning of "short" lines. Here, only words
    /// // shorter than 1/10th of the line width will be considered short:
    /// penalties.short_last_line_fraction = 10;
    /// assert_eq!(wrap(text, Options::new(37).wrap_algorithm(WrapAlgorithm::OptimalFit(penalties))),
    ///            vec!["This is a demo of the short last line",
    ///                 "penalty."]);
    ///
    /// // If desired, the penalty can also be disabled:
    /// penalties.short_last_line_fraction = 4;
    /// penalties.short_last_line_penalty = 0;
    /// assert_eq!(wrap(text, Options::new(37).wrap_algorithm(WrapAlgorithm::OptimalFit(penalties))),
    ///            vec!["This is a demo of the short last line",
    ///                 "penalty."]);
    /// }
    /// ```
    pub short_last_line_fraction: usize,

    /// Penalty for a last line with a single short word.
    ///
    /// Set this to zero if you do not want to penalize short last lines.
    pub short_last_line_penalty: usize,

    /// Penalty for lines ending with a hyphen.
    pub hyphen_penalty: usize,
}

impl Penalties {
    /// Default penalties for monospace text.
    ///
    /// The penalties here work well for monospace text. This is
    /// because they expect the gaps at the end of lines to be roughly
    /// in the range `0..100`. If the gaps are larger, the
    /// `overflow_penalty` and `hyphen_penalty` become insignificant.
    pub const fn new() -> Self {
        Penalties {
            nline_penalty: 1000,
            overflow_penalty: 50 * 50,
            short_last_line_fraction: 4,
            short_last_line_penalty: 25,
            hyphen_penalty: 25,
        }
    }
}

impl Default for Penalties {
    fn default() -> Self {
        Self::new()
    }
}

/// Cache for line numbers. This is necessary to avoid a O(n**2)
/// behavior when computing line numbers in [`wrap_optimal_fit`].
struct LineNumbers {
    line_numbers: RefCell<Vec<usize>>,
}

impl LineNumbers {
    fn new(size: usize) -> Self {
        let mut line_numbers = Vec::with_capacity(size);
        line_numbers.push(0);
        LineNumbers {
            line_numbers: RefCell::new(line_numbers),
        }
    }

    fn get<T>(&self, i: usize, minima: &[(usize, T)]) -> usize {
        while self.line_numbers.borrow_mut().len() < i + 1 {
            let pos = self.line_numbers.borrow().len();
            let line_number = 1 + self.get(minima[pos].0, minima);
            self.line_numbers.borrow_mut().push(line_number);
        }

        self.line_numbers.borrow()[i]
    }
}

/// Overflow error during the [`wrap_optimal_fit`] computation.
#[derive(Debug, PartialEq, Eq)]
pub struct OverflowError;

impl std::fmt::Display for OverflowError {
    fn fmt(&self, f: &mut std::fmt::Formatter<'_>) -> std::fmt::Result {
        write!(f, "wrap_optimal_fit cost computation overflowed")
    }
}

impl std::error::Error for OverflowError {}

/// Wrap abstract fragments into lines with an optimal-fit algorithm.
///
/// The `line_widths` slice gives the target line width for each line
/// (the last slice element is repeated as necessary). This can be
/// used to implement hanging indentation.
///
/// The fragments must already have been split into the desired
/// widths, this function will not (and cannot) attempt to split them
/// further when arranging them into lines.
///
/// # Optimal-Fit Algorithm
///
/// The algorithm considers all possible break points and picks the
/// breaks which minimizes the gaps at the end of each line. More
/// precisely, the algorithm assigns a cost or penalty to each break
/// point, determined by `cost = gap * gap` where `gap = target_width -
/// line_width`. Shorter lines are thus penalized more heavily since
/// they leave behind a larger gap.
///
/// We can illustrate this with the text “To be, or not to be: that is
/// the question”. We will be wrapping it in a narrow column with room
/// for only 10 characters. The [greedy
/// algorithm](super::wrap_first_fit) will produce these lines, each
/// annotated with the corresponding penalty:
///
/// ```text
/// "To be, or"   1² =  1
/// "not to be:"  0² =  0
/// "that is"     3² =  9
/// "the"         7² = 49
/// "question"    2² =  4
/// ```
///
/// We see that line four with “the” leaves a gap of 7 columns, which
/// gives it a penalty of 49. The sum of the penalties is 63.
///
/// There are 10 words, which means that there are `2_u32.pow(9)` or
/// 512 different ways to typeset it. We can compute
/// the sum of the penalties for each possible line break and search
/// for the one with the lowest sum:
///
/// ```text
/// "To be,"     4² = 16
/// "or not to"  1² =  1
/// "be: that"   2² =  4
/// "is the"     4² = 16
/// "question"   2² =  4
/// ```
///
/// The sum of the penalties is 41, which is better than what the
/// greedy algorithm produced.
///
/// Searching through all possible combinations would normally be
/// prohibitively slow. However, it turns out that the problem can be
/// formulated as the task of finding column minima in a cost matrix.
/// This matrix has a special form (totally monotone) which lets us
/// use a [linear-time algorithm called
/// SMAWK](https://lib.rs/crates/smawk) to find the optimal break
/// points.
///
/// This means that the time complexity remains O(_n_) where _n_ is
/// the number of words. Compared to
/// [`wrap_first_fit()`](super::wrap_first_fit), this function is
/// about 4 times slower.
///
/// The optimization of per-line costs over the entire paragraph is
/// inspired by the line breaking algorithm used in TeX, as described
/// in the 1981 article [_Breaking Paragraphs into
/// Lines_](http://www.eprg.org/G53DOC/pdfs/knuth-plass-breaking.pdf)
/// by Knuth and Plass. The implementation here is based on [Python
/// code by David
/// Eppstein](https://github.com/jfinkels/PADS/blob/master/pads/wrap.py).
///
/// # Errors
///
/// In case of an overflow during the cost computation, an `Err` is
/// returned. Overflows happens when fragments or lines have infinite
/// widths (`f64::INFINITY`) or if the widths are so large that the
/// gaps at the end of lines have sizes larger than `f64::MAX.sqrt()`
/// (approximately 1e154):
///
/// ```
/// use textwrap::core::Fragment;
/// use textwrap::wrap_algorithms::{wrap_optimal_fit, OverflowError, Penalties};
///
/// #[derive(Debug, PartialEq)]
/// struct Word(f64);
///
/// impl Fragment for Word {
///     fn width(&self) -> f64 { self.0 }
///     fn whitespace_width(&self) -> f64 { 1.0 }
///     fn penalty_width(&self) -> f64 { 0.0 }
/// }
///
/// // Wrapping overflows because 1e155 * 1e155 = 1e310, which is
/// // larger than f64::MAX:
/// assert_eq!(wrap_optimal_fit(&[Word(0.0), Word(0.0)], &[1e155], &Penalties::default()),
///            Err(OverflowError));
/// ```
///
/// When using fragment widths and line widths which fit inside an
/// `u64`, overflows cannot happen. This means that fragments derived
/// from a `&str` cannot cause overflows.
///
/// **Note:** Only available when the `smawk` Cargo feature is
/// enabled.
pub fn wrap_optimal_fit<'a, 'b, T: Fragment>(
    fragments: &'a [T],
    line_widths: &'b [f64],
    penalties: &'b Penalties,
) -> Result<Vec<&'a [T]>, OverflowError> {
    // The final line width is used for all remaining lines.
    let default_line_width = line_widths.last().copied().unwrap_or(0.0);
    let mut widths = Vec::with_capacity(fragments.len() + 1);
    let mut width = 0.0;
    widths.push(width);
    for fragment in fragments {
        width += fragment.width() + fragment.whitespace_width();
        widths.push(width);
    }

    let line_numbers = LineNumbers::new(fragments.len());

    let minima = smawk::online_column_minima(0.0, widths.len(), |minima, i, j| {
        // Line number for fragment `i`.
        let line_number = line_numbers.get(i, minima);
        let line_width = line_widths
            .get(line_number)
            .copied()
            .unwrap_or(default_line_width);
        let target_width = line_width.max(1.0);

        // Compute the width of a line spanning fragments[i..j] in
        // constant time. We need to adjust widths[j] by subtracting
        // the whitespace of fragment[j-1] and then add the penalty.
        let line_width = widths[j] - widths[i] - fragments[j - 1].whitespace_width()
            + fragments[j - 1].penalty_width();

        // We compute cost of the line containing fragments[i..j]. We
        // start with values[i].1, which is the optimal cost for
        // breaking before fragments[i].
        //
        // First, every extra line cost NLINE_PENALTY.
        let mut cost = minima[i].1 + penalties.nline_penalty as f64;

        // Next, we add a penalty depending on the line length.
        if line_width > target_width {
            // Lines that overflow get a hefty penalty.
            let overflow = line_width - target_width;
            cost += overflow * penalties.overflow_penalty as f64;
        } else if j < fragments.len() {
            // Other lines (except for the last line) get a milder
            // penalty which depend on the size of the gap.
            let gap = target_width - line_width;
            cost += gap * gap;
        } else if i + 1 == j
            && line_width < target_width / penalties.short_last_line_fraction as f64
        {
            // The last line can have any size gap, but we do add a
            // penalty if the line is very short (typically because it
            // contains just a single word).
            cost += penalties.short_last_line_penalty as f64;
        }

        // Finally, we discourage hyphens.
        if fragments[j - 1].penalty_width() > 0.0 {
            // TODO: this should use a penalty value from the fragment
            // instead.
            cost += penalties.hyphen_penalty as f64;
        }

        cost
    });

    for (_, cost) in &minima {
        if cost.is_infinite() {
            return Err(OverflowError);
        }
    }

    let mut lines = Vec::with_capacity(line_numbers.get(fragments.len(), &minima));
    let mut pos = fragments.len();
    loop {
        let prev = minima[pos].0;
        lines.push(&fragments[prev..pos]);
        pos = prev;
        if pos == 0 {
            break;
        }
    }

    lines.reverse();
    Ok(lines)
}

#[cfg(test)]
mod tests {
    use super::*;

    #[derive(Debug, PartialEq)]
    struct Word(f64);

    #[rustfmt::skip]
    impl Fragment for Word {
        fn width(&self) -> f64 { self.0 }
        fn whitespace_width(&self) -> f64 { 1.0 }
        fn penalty_width(&self) -> f64 { 0.0 }
    }

    #[test]
    fn wrap_fragments_with_infinite_widths() {
        let words = vec![Word(f64::INFINITY)];
        assert_eq!(
            wrap_optimal_fit(&words, &[0.0], &Penalties::default()),
            Err(OverflowError)
        );
    }

    #[test]
    fn wrap_fragments_with_huge_widths() {
        let words = vec![Word(1e200), Word(1e250), Word(1e300)];
        assert_eq!(
            wrap_optimal_fit(&words, &[1e300], &Penalties::default()),
            Err(OverflowError)
        );
    }

    #[test]
    fn wrap_fragments_with_large_widths() {
        // The gaps will be of the sizes between 1e25 and 1e75. This
        // makes the `gap * gap` cost fit comfortably in a f64.
        let words = vec![Word(1e25), Word(1e50), Word(1e75)];
        assert_eq!(
            wrap_optimal_fit(&words, &[1e100], &Penalties::default()),
            Ok(vec![&vec![Word(1e25), Word(1e50), Word(1e75)][..]])
        );
    }
}
