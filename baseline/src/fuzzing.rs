//! Fuzzing helpers.

use super::Options;
use std::borrow::Cow;

/// Exposed for fuzzing so we can check the slow path is correct.
pub fn fill_slow_path<'a>(text: &str, options: Options<'_>) -> String {
    crate::fill::fill_slow_path(text, options)
}

/// Exposed for fuzzing so we can check the slow path is correct.
pub fn wrap_single_line<'a>(line: &'a str, options: &Options<'_>, lines: &mut Vec<Cow<'a, str>>) {
    crate::wrap::wrap_single_line(line, options, lines);
}

/// Exposed for fuzzing so we can check the slow path is correct.
pub fn wrap_single_line_slow_path<'a>(
    line: &'a str,
    options: &Options<'_>,
    lines: &mut Vec<Cow<'a, str>>,
) {
    crate::wrap::wrap_single_line_slow_path(line, options, lines)
}
