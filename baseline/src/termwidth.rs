//! Functions related to the terminal size.

use crate::Options;

/// Return the current terminal width.
///
/// If the terminal width cannot be determined (typically because the
/// standard output is not connected to a terminal), a default width
/// of 80 characters will be used.
///
/// # Examples
///
/// Create an [`Options`] for wrapping at the current terminal width
/// with a two column margin to the left and the right:
///
/// ```no_run
/// use textwrap::{termwidth, Options};
///
/// let width = termwidth() - 4; // Two columns on each side.
/// let options = Options::new(width)
///     .initial_indent("  ")
///     .subsequent_indent("  ");
/// ```
///
/// **Note:** Only available when the `terminal_size` Cargo feature is
/// enabled.
pub fn termwidth() -> usize {
    terminal_size::terminal_size().map_or(80, |(terminal_size::Width(w), _)| w.into())
}

impl<'a> Options<'a> {
    /// Creates a new [`Options`] with `width` set to the current
    /// terminal width. If the terminal width cannot be determined
    /// (typically because the standard input and output is not
    /// connected to a terminal), a width of 80 characters will be
    /// used. Other settings use the same defaults as
    /// [`Options::new`].
    ///
    /// Equivalent to:
    ///
    /// ```no_run
    /// use textwrap::{termwidth, Options};
    ///
    /// let options = Options::new(termwidth());
    /// ```
    ///
    /// **Note:** Only available when the `terminal_size` feature is
    /// enabled.
    pub fn with_termwidth() -> Self {
        Self::new(termwidth())
    }
}
