//! The textwrap library provides functions for word wrapping and
//! indenting text.
//!
//! # Wrapping Text
//!
//! Wrapping text can be very useful in command-line programs where
//! you want to format dynamic output nicely so it looks good in a
//! terminal. A quick example:
//!
//! ```
//! # #[cfg(feature = "smawk")] {
//! let text = "textwrap: a small library for wrapping text.";
//! assert_eq!(textwrap::wrap(text, 18),
//!            vec!["textwrap: a",
//!                 "small library for",
//!                 "wrapping text."]);
//! # }
//! ```
//!
//! The [`wrap()`] function returns the individual lines, use
//! [`fill()`] is you want the lines joined with `'\n'` to form a
//! `String`.
//!
//! If you enable the `hyphenation` Cargo feature, you can get
//! automatic hyphenation for a number of languages:
//!
//! ```
//! #[cfg(feature = "hyphenation")] {
//! use hyphenation::{Language, Load, Standard};
//! use textwrap::{wrap, Options, WordSplitter};
//!
//! let text = "textwrap: a small library for wrapping text.";
//! let dictionary = Standard::from_embedded(Language::EnglishUS).unwrap();
//! let options = Options::new(18).word_splitter(WordSplitter::Hyphenation(dictionary));
//! assert_eq!(wrap(text, &options),
//!            vec!["textwrap: a small",
//!                 "library for wrap-",
//!                 "ping text."]);
//! }
//! ```
//!
//! See also the [`unfill()`] and [`refill()`] functions which allow
//! you to manipulate already wrapped text.
//!
//! ## Wrapping Strings at Compile Time
//!
//! If your strings are known at compile time, please take a look at
//! the procedural macros from the [textwrap-macros] crate.
//!
//! ## Displayed Width vs Byte Size
//!
//! To word wrap text, one must know the width of each word so one can
//! know when to break lines. This library will by default measure the
//! width of text using the _displayed width_, not the size in bytes.
//! The `unicode-width` Cargo feature controls this.
//!
//! This is important for non-ASCII text. ASCII characters such as `a`
//! and `!` are simple and take up one column each. This means that
//! the displayed width is equal to the string length in bytes.
//! However, non-ASCII characters and symbols take up more than one
//! byte when UTF-8 encoded: `é` is `0xc3 0xa9` (two bytes) and `⚙` is
//! `0xe2 0x9a 0x99` (three bytes) in UTF-8, respectively.
//!
//! This is why we take care to use the displayed width instead of the
//! byte count when computing line lengths. All functions in this
//! library handle Unicode characters like this when the
//! `unicode-width` Cargo feature is enabled (it is enabled by
//! default).
//!
//! # Indentation and Dedentation
//!
//! The textwrap library also offers functions for adding a prefix to
//! every line of a string and to remove leading whitespace. As an
//! example, [`indent()`] allows you to turn lines of text into a
//! bullet list:
//!
//! ```
//! let before = "\
//! foo
//! bar
//! baz
//! ";
//! let after = "\
//! * foo
//! * bar
//! * baz
//! ";
//! assert_eq!(textwrap::indent(before, "* "), after);
//! ```
//!
//! Removing leading whitespace is done with [`dedent()`]:
//!
//! ```
//! let before = "
//!     Some
//!       indented
//!         text
//! ";
//! let after = "
//! Some
//!   indented
//!     text
//! ";
//! assert_eq!(textwrap::dedent(before), after);
//! ```
//!
//! # Cargo Features
//!
//! The textwrap library can be slimmed down as needed via a number of
//! Cargo features. This means you only pay for the features you
//! actually use.
//!
//! The full dependency graph, where dashed lines indicate optional
//! dependencies, is shown below:
//!
//! <img src="https://raw.githubusercontent.com/mgeisler/textwrap/master/images/textwrap-0.16.2.svg">
//!
//! ## Default Features
//!
//! These features are enabled by default:
//!
//! * `unicode-linebreak`: enables finding words using the
//!   [unicode-linebreak] crate, which implements the line breaking
//!   algorithm described in [Unicode Standard Annex
//!   #14](https://www.unicode.org/reports/tr14/).
//!
//!   This feature can be disabled if you are happy to find words
//!   separated by ASCII space characters only. People wrapping text
//!   with emojis or East-Asian characters will want most likely want
//!   to enable this feature. See [`WordSeparator`] for details.
//!
//! * `unicode-width`: enables correct width computation of non-ASCII
//!   characters via the [unicode-width] crate. Without this feature,
//!   every [`char`] is 1 column wide, except for emojis which are 2
//!   columns wide. See [`core::display_width()`] for details.
//!
//!   This feature can be disabled if you only need to wrap ASCII
//!   text, or if the functions in [`core`] are used directly with
//!   [`core::Fragment`]s for which the widths have been computed in
//!   other ways.
//!
//! * `smawk`: enables linear-time wrapping of the whole paragraph via
//!   the [smawk] crate. See [`wrap_algorithms::wrap_optimal_fit()`]
//!   for details on the optimal-fit algorithm.
//!
//!   This feature can be disabled if you only ever intend to use
//!   [`wrap_algorithms::wrap_first_fit()`].
//!
//! <!-- begin binary-sizes -->
//!
//! With Rust 1.64.0, the size impact of the above features on your
//! binary is as follows:
//!
//! | Configuration                            |  Binary Size |    Delta |
//! | :---                                     |         ---: |     ---: |
//! | quick-and-dirty implementation           |       289 KB |     — KB |
//! | textwrap without default features        |       305 KB |    16 KB |
//! | textwrap with smawk                      |       317 KB |    28 KB |
//! | textwrap with unicode-width              |       309 KB |    20 KB |
//! | textwrap with unicode-linebreak          |       342 KB |    53 KB |
//!
//! <!-- end binary-sizes -->
//!
//! The above sizes are the stripped sizes and the binary is compiled
//! in release mode with this profile:
//!
//! ```toml
//! [profile.release]
//! lto = true
//! codegen-units = 1
//! ```
//!
//! See the [binary-sizes demo] if you want to reproduce these
//! results.
//!
//! ## Optional Features
//!
//! These Cargo features enable new functionality:
//!
//! * `terminal_size`: enables automatic detection of the terminal
//!   width via the [terminal_size] crate. See
//!   [`Options::with_termwidth()`] for details.
//!
//! * `hyphenation`: enables language-sensitive hyphenation via the
//!   [hyphenation] crate. See the [`word_splitters::WordSplitter`]
//!   trait for details.
//!
//! [unicode-linebreak]: https://docs.rs/unicode-linebreak/
//! [unicode-width]: https://docs.rs/unicode-width/
//! [smawk]: https://docs.rs/smawk/
//! [binary-sizes demo]: https://github.com/mgeisler/textwrap/tree/master/examples/binary-sizes
//! [textwrap-macros]: https://docs.rs/textwrap-macros/
//! [terminal_size]: https://docs.rs/terminal_size/
//! [hyphenation]: https://docs.rs/hyphenation/

#![doc(html_root_url = "https://docs.rs/textwrap/0.16.2")]
#![forbid(unsafe_code)] // See https://github.com/mgeisler/textwrap/issues/210
#![deny(missing_docs)]
#![deny(missing_debug_implementations)]
#![allow(clippy::redundant_field_names)]

// Make `cargo test` execute the README doctests.
#[cfg(doctest)]
#[doc = include_str!("../README.md")]
mod readme_doctest {}

pub mod core;
#[cfg(fuzzing)]
pub mod fuzzing;
pub mod word_splitters;
pub mod wrap_algorithms;

mod columns;
mod fill;
mod indentation;
mod line_ending;
mod options;
mod refill;
#[cfg(feature = "terminal_size")]
mod termwidth;
mod word_separators;
mod wrap;

pub use columns::wrap_columns;
pub use fill::{fill, fill_inplace};
pub use indentation::{dedent, indent};
pub use line_ending::LineEnding;
pub use options::Options;
pub use refill::{refill, unfill};
#[cfg(feature = "terminal_size")]
pub use termwidth::termwidth;
pub use word_separators::WordSeparator;
pub use word_splitters::WordSplitter;
pub use wrap::wrap;
pub use wrap_algorithms::WrapAlgorithm;
