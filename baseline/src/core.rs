//! Building blocks for advanced wrapping functionality.
//!
//! The functions and structs in this module can be used to implement
//! advanced wrapping functionality when [`wrap()`](crate::wrap())
//! [`fill()`](crate::fill()) don't do what you want.
//!
//! In general, you want to follow these steps when wrapping
//! something:
//!
//! 1. Split your input into [`Fragment`]s. These are abstract blocks
//!    of text or content which can be wrapped into lines. See
//!    [`WordSeparator`](crate::word_separators::WordSeparator) for
//!    how to do this for text.
//!
//! 2. Potentially split your fragments into smaller pieces. This
//!    allows you to implement things like hyphenation. If you use the
//!    `Word` type, you can use [`WordSplitter`](crate::WordSplitter)
//!    enum for this.
//!
//! 3. Potentially break apart fragments that are still too large to
//!    fit on a single line. This is implemented in [`break_words`].
//!
//! 4. Finally take your fragments and put them into lines. There are
//!    two algorithms for this in the
//!    [`wrap_algorithms`](crate::wrap_algorithms) module:
//!    [`wrap_optimal_fit`](crate::wrap_algorithms::wrap_optimal_fit)
//!    and [`wrap_first_fit`](crate::wrap_algorithms::wrap_first_fit).
//!    The former produces better line breaks, the latter is faster.
//!
//! 5. Iterate through the slices returned by the wrapping functions
//!    and construct your lines of output.
//!
//! Please [open an issue](https://github.com/mgeisler/textwrap/) if
//! the functionality here is not sufficient or if you have ideas for
//! improving it. We would love to hear from you!

/// The CSI or “Control Sequence Introducer” introduces an ANSI escape
/// sequence. This is typically used for colored text and will be
/// ignored when computing the text width.
const CSI: (char, char) = ('\x1b', '[');
/// The final bytes of an ANSI escape sequence must be in this range.
const ANSI_FINAL_BYTE: std::ops::RangeInclusive<char> = '\x40'..='\x7e';

/// Skip ANSI escape sequences.
///
/// The `ch` is the current `char`, the `chars` provide the following
/// characters. The `chars` will be modified if `ch` is the start of
/// an ANSI escape sequence.
///
/// Returns `true` if one or more chars were skipped.
#[inline]
pub(crate) fn skip_ansi_escape_sequence<I: Iterator<Item = char>>(ch: char, chars: &mut I) -> bool {
    if ch != CSI.0 {
        return false; // Nothing to skip here.
    }

    let next = chars.next();
    if next == Some(CSI.1) {
        // We have found the start of an ANSI escape code, typically
        // used for colored terminal text. We skip until we find a
        // "final byte" in the range 0x40–0x7E.
        for ch in chars {
            if ANSI_FINAL_BYTE.contains(&ch) {
                break;
            }
        }
    } else if next == Some(']') {
        // We have found the start of an Operating System Command,
        // which extends until the next sequence "\x1b\\" (the String
        // Terminator sequence) or the BEL character. The BEL
        // character is non-standard, but it is still used quite
        // often, for example, by GNU ls.
        let mut last = ']';
        for new in chars {
            if new == '\x07' || (new == '\\' && last == CSI.0) {
                break;
            }
            last = new;
        }
    }

    true // Indicate that some chars were skipped.
}

#[cfg(feature = "unicode-width")]
#[inline]
fn ch_width(ch: char) -> usize {
    unicode_width::UnicodeWidthChar::width(ch).unwrap_or(0)
}

/// First character which [`ch_width`] will classify as double-width.
/// Please see [`display_width`].
#[cfg(not(feature = "unicode-width"))]
const DOUBLE_WIDTH_CUTOFF: char = '\u{1100}';

#[cfg(not(feature = "unicode-width"))]
#[inline]
fn ch_width(ch: char) -> usize {
    if ch < DOUBLE_WIDTH_CUTOFF {
        1
    } else {
        2
    }
}

/// Compute the display width of `text` while skipping over ANSI
/// escape sequences.
///
/// # Examples
///
/// ```
/// use textwrap::core::display_width;
///
/// assert_eq!(display_width("Café Plain"), 10);
/// assert_eq!(display_width("\u{1b}[31mCafé Rouge\u{1b}[0m"), 10);
/// assert_eq!(display_width("\x1b]8;;http://example.com\x1b\\This is a link\x1b]8;;\x1b\\"), 14);
/// ```
///
/// **Note:** When the `unicode-width` Cargo feature is disabled, the
/// width of a `char` is determined by a crude approximation which
/// simply counts chars below U+1100 as 1 column wide, and all other
/// characters as 2 columns wide. With the feature enabled, function
/// will correctly deal with [combining characters] in their
/// decomposed form (see [Unicode equivalence]).
///
/// An example of a decomposed character is “é”, which can be
/// decomposed into: “e” followed by a combining acute accent: “◌́”.
/// Without the `unicode-width` Cargo feature, every `char` below
/// U+1100 has a width of 1. This includes the combining accent:
///
/// ```
/// use textwrap::core::display_width;
///
/// assert_eq!(display_width("Cafe Plain"), 10);
/// #[cfg(feature = "unicode-width")]
/// assert_eq!(display_width("Cafe\u{301} Plain"), 10);
/// #[cfg(not(feature = "unicode-width"))]
/// assert_eq!(display_width("Cafe\u{301} Plain"), 11);
/// ```
///
/// ## Emojis and CJK Characters
///
/// Characters such as emojis and [CJK characters] used in the
/// Chinese, Japanese, and Korean languages are seen as double-width,
/// even if the `unicode-width` feature is disabled:
///
/// ```
/// use textwrap::core::display_width;
///
/// assert_eq!(display_width("😂😭🥺🤣✨😍🙏🥰😊🔥"), 20);
/// assert_eq!(display_width("你好"), 4);  // “Nǐ hǎo” or “Hello” in Chinese
/// ```
///
/// # Limitations
///
/// The displayed width of a string cannot always be computed from the
/// string alone. This is because the width depends on the rendering
/// engine used. This is particularly visible with [emoji modifier
/// sequences] where a base emoji is modified with, e.g., skin tone or
/// hair color modifiers. It is up to the rendering engine to detect
/// this and to produce a suitable emoji.
///
/// A simple example is “❤️”, which consists of “❤” (U+2764: Black
/// Heart Symbol) followed by U+FE0F (Variation Selector-16). By
/// itself, “❤” is a black heart, but if you follow it with the
/// variant selector, you may get a wider red heart.
///
/// A more complex example would be “👨‍🦰” which should depict a man
/// with red hair. Here the computed width is too large — and the
/// width differs depending on the use of the `unicode-width` feature:
///
/// ```
/// use textwrap::core::display_width;
///
/// assert_eq!("👨‍🦰".chars().collect::<Vec<char>>(), ['\u{1f468}', '\u{200d}', '\u{1f9b0}']);
/// #[cfg(feature = "unicode-width")]
/// assert_eq!(display_width("👨‍🦰"), 4);
/// #[cfg(not(feature = "unicode-width"))]
/// assert_eq!(display_width("👨‍🦰"), 6);
/// ```
///
/// This happens because the grapheme consists of three code points:
/// “👨” (U+1F468: Man), Zero Width Joiner (U+200D), and “🦰”
/// (U+1F9B0: Red Hair). You can see them above in the test. With
/// `unicode-width` enabled, the ZWJ is correctly seen as having zero
/// width, without it is counted as a double-width character.
///
/// ## Terminal Support
///
/// Modern browsers typically do a great job at combining characters
/// as shown above, but terminals often struggle more. As an example,
/// Gnome Terminal version 3.38.1, shows “❤️” as a big red heart, but
/// shows "👨‍🦰" as “👨🦰”.
///
/// [combining characters]: https://en.wikipedia.org/wiki/Combining_character
/// [Unicode equivalence]: https://en.wikipedia.org/wiki/Unicode_equivalence
/// [CJK characters]: https://en.wikipedia.org/wiki/CJK_characters
/// [emoji modifier sequences]: https://unicode.org/emoji/charts/full-emoji-modifiers.html
pub fn display_width(text: &str) -> usize {
    let mut chars = text.chars();
    let mut width = 0;
    while let Some(ch) = chars.next() {
        if skip_ansi_escape_sequence(ch, &mut chars) {
            continue;
        }
        width += ch_width(ch);
    }
    width
}

/// A (text) fragment denotes the unit which we wrap into lines.
///
/// Fragments represent an abstract _word_ plus the _whitespace_
/// following the word. In case the word falls at the end of the line,
/// the whitespace is dropped and a so-called _penalty_ is inserted
/// instead (typically `"-"` if the word was hyphenated).
///
/// For wrapping purposes, the precise content of the word, the
/// whitespace, and the penalty is irrelevant. All we need to know is
/// the displayed width of each part, which this trait provides.
pub trait Fragment: std::fmt::Debug {
    /// Displayed width of word represented by this fragment.
    fn width(&self) -> f64;

    /// Displayed width of the whitespace that must follow the word
    /// when the word is not at the end of a line.
    fn whitespace_width(&self) -> f64;

    /// Displayed width of the penalty that must be inserted if the
    /// word falls at the end of a line.
    fn penalty_width(&self) -> f64;
}

/// A piece of wrappable text, including any trailing whitespace.
///
/// A `Word` is an example of a [`Fragment`], so it has a width,
/// trailing whitespace, and potentially a penalty item.
#[derive(Debug, Copy, Clone, PartialEq, Eq)]
pub struct Word<'a> {
    /// Word content.
    pub word: &'a str,
    /// Whitespace to insert if the word does not fall at the end of a line.
    pub whitespace: &'a str,
    /// Penalty string to insert if the word falls at the end of a line.
    pub penalty: &'a str,
    /// Cached width in columns.
    pub width: usize,
}

impl std::ops::Deref for Word<'_> {
    type Target = str;

    fn deref(&self) -> &Self::Target {
        self.word
    }
}

impl<'a> Word<'a> {
    /// Construct a `Word` from a string.
    ///
    /// A trailing stretch of `' '` is automatically taken to be the
    /// whitespace part of the word.
    pub fn from(word: &str) -> Word<'_> {
        let trimmed = word.trim_end_matches(' ');
        Word {
            word: trimmed,
            width: display_width(trimmed),
            whitespace: &word[trimmed.len()..],
            penalty: "",
        }
    }

    /// Break this word into smaller words with a width of at most
    /// `line_width`. The whitespace and penalty from this `Word` is
    /// added to the last piece.
    ///
    /// # Examples
    ///
    /// ```
    /// use textwrap::core::Word;
    /// assert_eq!(
    ///     Word::from("Hello!  ").break_apart(3).collect::<Vec<_>>(),
    ///     vec![Word::from("Hel"), Word::from("lo!  ")]
    /// );
    /// ```
    pub fn break_apart<'b>(&'b self, line_width: usize) -> impl Iterator<Item = Word<'a>> + 'b {
        let mut char_indices = self.word.char_indices();
        let mut offset = 0;
        let mut width = 0;

        std::iter::from_fn(move || {
            while let Some((idx, ch)) = char_indices.next() {
                if skip_ansi_escape_sequence(ch, &mut char_indices.by_ref().map(|(_, ch)| ch)) {
                    continue;
                }

                if width > 0 && width + ch_width(ch) > line_width {
                    let word = Word {
                        word: &self.word[offset..idx],
                        width: width,
                        whitespace: "",
                        penalty: "",
                    };
                    offset = idx;
                    width = ch_width(ch);
                    return Some(word);
                }

                width += ch_width(ch);
            }

            if offset < self.word.len() {
                let word = Word {
                    word: &self.word[offset..],
                    width: width,
                    whitespace: self.whitespace,
                    penalty: self.penalty,
                };
                offset = self.word.len();
                return Some(word);
            }

            None
        })
    }
}

impl Fragment for Word<'_> {
    #[inline]
    fn width(&self) -> f64 {
        self.width as f64
    }

    // We assume the whitespace consist of ' ' only. This allows us to
    // compute the display width in constant time.
    #[inline]
    fn whitespace_width(&self) -> f64 {
        self.whitespace.len() as f64
    }

    // We assume the penalty is `""` or `"-"`. This allows us to
    // compute the display width in constant time.
    #[inline]
    fn penalty_width(&self) -> f64 {
        self.penalty.len() as f64
    }
}

/// Forcibly break words wider than `line_width` into smaller words.
///
/// This simply calls [`Word::break_apart`] on words that are too
/// wide. This means that no extra `'-'` is inserted, the word is
/// simply broken into smaller pieces.
pub fn break_words<'a, I>(words: I, line_width: usize) -> Vec<Word<'a>>
where
    I: IntoIterator<Item = Word<'a>>,
{
    let mut shortened_words = Vec::new();
    for word in words {
        if word.width > line_width {
            shortened_words.extend(word.break_apart(line_width));
        } else {
            shortened_words.push(word);
        }
    }
    shortened_words
}

#[cfg(test)]
mod tests {
    use super::*;

    #[cfg(feature = "unicode-width")]
    use unicode_width::UnicodeWidthChar;

    #[test]
    fn skip_ansi_escape_sequence_works() {
        let blue_text = "\u{1b}[34mHello\u{1b}[0m";
        let mut chars = blue_text.chars();
        let ch = chars.next().unwrap();
        assert!(skip_ansi_escape_sequence(ch, &mut chars));
        assert_eq!(chars.next(), Some('H'));
    }

    #[test]
    fn emojis_have_correct_width() {
        use unic_emoji_char::is_emoji;

        // Emojis in the Basic Latin (ASCII) and Latin-1 Supplement
        // blocks all have a width of 1 column. This includes
        // characters such as '#' and '©'.
        for ch in '\u{1}'..'\u{FF}' {
            if is_emoji(ch) {
                let desc = format!("{:?} U+{:04X}", ch, ch as u32);

                #[cfg(feature = "unicode-width")]
                assert_eq!(ch.width().unwrap(), 1, "char: {}", desc);

                #[cfg(not(feature = "unicode-width"))]
                assert_eq!(ch_width(ch), 1, "char: {}", desc);
            }
        }

        // Emojis in the remaining blocks of the Basic Multilingual
        // Plane (BMP), in the Supplementary Multilingual Plane (SMP),
        // and in the Supplementary Ideographic Plane (SIP), are all 1
        // or 2 columns wide when unicode-width is used, and always 2
        // columns wide otherwise. This includes all of our favorite
        // emojis such as 😊.
        for ch in '\u{FF}'..'\u{2FFFF}' {
            if is_emoji(ch) {
                let desc = format!("{:?} U+{:04X}", ch, ch as u32);

                #[cfg(feature = "unicode-width")]
                assert!(ch.width().unwrap() <= 2, "char: {}", desc);

                #[cfg(not(feature = "unicode-width"))]
                assert_eq!(ch_width(ch), 2, "char: {}", desc);
            }
        }

        // The remaining planes contain almost no assigned code points
        // and thus also no emojis.
    }

    #[test]
    fn display_width_works() {
        assert_eq!("Café Plain".len(), 11); // “é” is two bytes
        assert_eq!(display_width("Café Plain"), 10);
        assert_eq!(display_width("\u{1b}[31mCafé Rouge\u{1b}[0m"), 10);
        assert_eq!(
            display_width("\x1b]8;;http://example.com\x1b\\This is a link\x1b]8;;\x1b\\"),
            14
        );
    }

    #[test]
    fn display_width_narrow_emojis() {
        #[cfg(feature = "unicode-width")]
        assert_eq!(display_width("⁉"), 1);

        // The ⁉ character is above DOUBLE_WIDTH_CUTOFF.
        #[cfg(not(feature = "unicode-width"))]
        assert_eq!(display_width("⁉"), 2);
    }

    #[test]
    fn display_width_narrow_emojis_variant_selector() {
        #[cfg(feature = "unicode-width")]
        assert_eq!(display_width("⁉\u{fe0f}"), 1);

        // The variant selector-16 is also counted.
        #[cfg(not(feature = "unicode-width"))]
        assert_eq!(display_width("⁉\u{fe0f}"), 4);
    }

    #[test]
    fn display_width_emojis() {
        assert_eq!(display_width("😂😭🥺🤣✨😍🙏🥰😊🔥"), 20);
    }
}
