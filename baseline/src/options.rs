//! Options for wrapping text.

use crate::{LineEnding, WordSeparator, WordSplitter, WrapAlgorithm};

/// Holds configuration options for wrapping and filling text.
#[non_exhaustive]
#[derive(Debug, Clone)]
pub struct Options<'a> {
    /// The width in columns at which the text will be wrapped.
    pub width: usize,
    /// Line ending used for breaking lines.
    pub line_ending: LineEnding,
    /// Indentation used for the first line of output. See the
    /// [`Options::initial_indent`] method.
    pub initial_indent: &'a str,
    /// Indentation used for subsequent lines of output. See the
    /// [`Options::subsequent_indent`] method.
    pub subsequent_indent: &'a str,
    /// Allow long words to be broken if they cannot fit on a line.
    /// When set to `false`, some lines may be longer than
    /// `self.width`. See the [`Options::break_words`] method.
    pub break_words: bool,
    /// Wrapping algorithm to use, see the implementations of the
    /// [`WrapAlgorithm`] trait for details.
    pub wrap_algorithm: WrapAlgorithm,
    /// The line breaking algorithm to use, see the [`WordSeparator`]
    /// trait for an overview and possible implementations.
    pub word_separator: WordSeparator,
    /// The method for splitting words. This can be used to prohibit
    /// splitting words on hyphens, or it can be used to implement
    /// language-aware machine hyphenation.
    pub word_splitter: WordSplitter,
}

impl<'a> From<&'a Options<'a>> for Options<'a> {
    fn from(options: &'a Options<'a>) -> Self {
        Self {
            width: options.width,
            line_ending: options.line_ending,
            initial_indent: options.initial_indent,
            subsequent_indent: options.subsequent_indent,
            break_words: options.break_words,
            word_separator: options.word_separator,
            wrap_algorithm: options.wrap_algorithm,
            word_splitter: options.word_splitter.clone(),
        }
    }
}

impl From<usize> for Options<'_> {
    fn from(width: usize) -> Self {
        Options::new(width)
    }
}

impl<'a> Options<'a> {
    /// Creates a new [`Options`] with the specified width.
    ///
    /// The other fields are given default values as follows:
    ///
    /// ```
    /// # use textwrap::{LineEnding, Options, WordSplitter, WordSeparator, WrapAlgorithm};
    /// # let width = 80;
    /// let options = Options::new(width);
    /// assert_eq!(options.line_ending, LineEnding::LF);
    /// assert_eq!(options.initial_indent, "");
    /// assert_eq!(options.subsequent_indent, "");
    /// assert_eq!(options.break_words, true);
    ///
    /// #[cfg(feature = "unicode-linebreak")]
    /// assert_eq!(options.word_separator, WordSeparator::UnicodeBreakProperties);
    /// #[cfg(not(feature = "unicode-linebreak"))]
    /// assert_eq!(options.word_separator, WordSeparator::AsciiSpace);
    ///
    /// #[cfg(feature = "smawk")]
    /// assert_eq!(options.wrap_algorithm, WrapAlgorithm::new_optimal_fit());
    /// #[cfg(not(feature = "smawk"))]
    /// assert_eq!(options.wrap_algorithm, WrapAlgorithm::FirstFit);
    ///
    /// assert_eq!(options.word_splitter, WordSplitter::HyphenSplitter);
    /// ```
    ///
    /// Note that the default word separator and wrap algorithms
    /// changes based on the available Cargo features. The best
    /// available algorithms are used by default.
    pub const fn new(width: usize) -> Self {
        Options {
            width,
            line_ending: LineEnding::LF,
            initial_indent: "",
            subsequent_indent: "",
            break_words: true,
            word_separator: WordSeparator::new(),
            wrap_algorithm: WrapAlgorithm::new(),
            word_splitter: WordSplitter::HyphenSplitter,
        }
    }

    /// Change [`self.line_ending`]. This specifies which of the
    /// supported line endings should be used to break the lines of the
    /// input text.
    ///
    /// # Examples
    ///
    /// ```
    /// use textwrap::{refill, LineEnding, Options};
    ///
    /// let options = Options::new(15).line_ending(LineEnding::CRLF);
    /// assert_eq!(refill("This is a little example.", options),
    ///            "This is a\r\nlittle example.");
    /// ```
    ///
    /// [`self.line_ending`]: #structfield.line_ending
    pub fn line_ending(self, line_ending: LineEnding) -> Self {
        Options {
            line_ending,
            ..self
        }
    }

    /// Set [`self.width`] to the given value.
    ///
    /// [`self.width`]: #structfield.width
    pub fn width(self, width: usize) -> Self {
        Options { width, ..self }
    }

    /// Change [`self.initial_indent`]. The initial indentation is
    /// used on the very first line of output.
    ///
    /// # Examples
    ///
    /// Classic paragraph indentation can be achieved by specifying an
    /// initial indentation and wrapping each paragraph by itself:
    ///
    /// ```
    /// use textwrap::{wrap, Options};
    ///
    /// let options = Options::new(16).initial_indent("    ");
    /// assert_eq!(wrap("This is a little example.", options),
    ///            vec!["    This is a",
    ///                 "little example."]);
    /// ```
    ///
    /// [`self.initial_indent`]: #structfield.initial_indent
    pub fn initial_indent(self, initial_indent: &'a str) -> Self {
        Options {
            initial_indent,
            ..self
        }
    }

    /// Change [`self.subsequent_indent`]. The subsequent indentation
    /// is used on lines following the first line of output.
    ///
    /// # Examples
    ///
    /// Combining initial and subsequent indentation lets you format a
    /// single paragraph as a bullet list:
    ///
    /// ```
    /// use textwrap::{wrap, Options};
    ///
    /// let options = Options::new(12)
    ///     .initial_indent("* ")
    ///     .subsequent_indent("  ");
    /// #[cfg(feature = "smawk")]
    /// assert_eq!(wrap("This is a little example.", options),
    ///            vec!["* This is",
    ///                 "  a little",
    ///                 "  example."]);
    ///
    /// // Without the `smawk` feature, the wrapping is a little different:
    /// #[cfg(not(feature = "smawk"))]
    /// assert_eq!(wrap("This is a little example.", options),
    ///            vec!["* This is a",
    ///                 "  little",
    ///                 "  example."]);
    /// ```
    ///
    /// [`self.subsequent_indent`]: #structfield.subsequent_indent
    pub fn subsequent_indent(self, subsequent_indent: &'a str) -> Self {
        Options {
            subsequent_indent,
            ..self
        }
    }

    /// Change [`self.break_words`]. This controls if words longer
    /// than `self.width` can be broken, or if they will be left
    /// sticking out into the right margin.
    ///
    /// See [`Options::word_splitter`] instead if you want to control
    /// hyphenation.
    ///
    /// # Examples
    ///
    /// ```
    /// use textwrap::{wrap, Options};
    ///
    /// let options = Options::new(4).break_words(true);
    /// assert_eq!(wrap("This is a little example.", options),
    ///            vec!["This",
    ///                 "is a",
    ///                 "litt",
    ///                 "le",
    ///                 "exam",
    ///                 "ple."]);
    /// ```
    ///
    /// [`self.break_words`]: #structfield.break_words
    pub fn break_words(self, break_words: bool) -> Self {
        Options {
            break_words,
            ..self
        }
    }

    /// Change [`self.word_separator`].
    ///
    /// See the [`WordSeparator`] trait for details on the choices.
    ///
    /// [`self.word_separator`]: #structfield.word_separator
    pub fn word_separator(self, word_separator: WordSeparator) -> Options<'a> {
        Options {
            word_separator,
            ..self
        }
    }

    /// Change [`self.wrap_algorithm`].
    ///
    /// See the [`WrapAlgorithm`] trait for details on the choices.
    ///
    /// [`self.wrap_algorithm`]: #structfield.wrap_algorithm
    pub fn wrap_algorithm(self, wrap_algorithm: WrapAlgorithm) -> Options<'a> {
        Options {
            wrap_algorithm,
            ..self
        }
    }

    /// Change [`self.word_splitter`]. The [`WordSplitter`] is used to
    /// fit part of a word into the current line when wrapping text.
    ///
    /// See [`Options::break_words`] instead if you want to control the
    /// handling of words longer than the line width.
    ///
    /// # Examples
    ///
    /// ```
    /// use textwrap::{wrap, Options, WordSplitter};
    ///
    /// // The default is WordSplitter::HyphenSplitter.
    /// let options = Options::new(5);
    /// assert_eq!(wrap("foo-bar-baz", &options),
    ///            vec!["foo-", "bar-", "baz"]);
    ///
    /// // The word is now so long that break_words kick in:
    /// let options = Options::new(5)
    ///     .word_splitter(WordSplitter::NoHyphenation);
    /// assert_eq!(wrap("foo-bar-baz", &options),
    ///            vec!["foo-b", "ar-ba", "z"]);
    ///
    /// // If you want to breaks at all, disable both:
    /// let options = Options::new(5)
    ///     .break_words(false)
    ///     .word_splitter(WordSplitter::NoHyphenation);
    /// assert_eq!(wrap("foo-bar-baz", &options),
    ///            vec!["foo-bar-baz"]);
    /// ```
    ///
    /// [`self.word_splitter`]: #structfield.word_splitter
    pub fn word_splitter(self, word_splitter: WordSplitter) -> Options<'a> {
        Options {
            word_splitter,
            ..self
        }
    }
}

#[cfg(test)]
mod tests {
    use super::*;

    #[test]
    fn options_agree_with_usize() {
        let opt_usize = Options::from(42_usize);
        let opt_options = Options::new(42);

        assert_eq!(opt_usize.width, opt_options.width);
        assert_eq!(opt_usize.initial_indent, opt_options.initial_indent);
        assert_eq!(opt_usize.subsequent_indent, opt_options.subsequent_indent);
        assert_eq!(opt_usize.break_words, opt_options.break_words);
        assert_eq!(
            opt_usize.word_splitter.split_points("hello-world"),
            opt_options.word_splitter.split_points("hello-world")
        );
    }
}
