//! Functionality for wrapping text into columns.

use crate::core::display_width;
use crate::{wrap, Options};

/// Wrap text into columns with a given total width.
///
/// The `left_gap`, `middle_gap` and `right_gap` arguments specify the
/// strings to insert before, between, and after the columns. The
/// total width of all columns and all gaps is specified using the
/// `total_width_or_options` argument. This argument can simply be an
/// integer if you want to use default settings when wrapping, or it
/// can be a [`Options`] value if you want to customize the wrapping.
///
/// If the columns are narrow, it is recommended to set
/// [`Options::break_words`] to `true` to prevent words from
/// protruding into the margins.
///
/// The per-column width is computed like this:
///
/// ```
/// # let (left_gap, middle_gap, right_gap) = ("", "", "");
/// # let columns = 2;
/// # let options = textwrap::Options::new(80);
/// let inner_width = options.width
///     - textwrap::core::display_width(left_gap)
///     - textwrap::core::display_width(right_gap)
///     - textwrap::core::display_width(middle_gap) * (columns - 1);
/// let column_width = inner_width / columns;
/// ```
///
/// The `text` is wrapped using [`wrap()`] and the given `options`
/// argument, but the width is overwritten to the computed
/// `column_width`.
///
/// # Panics
///
/// Panics if `columns` is zero.
///
/// # Examples
///
/// ```
/// use textwrap::wrap_columns;
///
/// let text = "\
/// This is an example text, which is wrapped into three columns. \
/// Notice how the final column can be shorter than the others.";
///
/// #[cfg(feature = "smawk")]
/// assert_eq!(wrap_columns(text, 3, 50, "| ", " | ", " |"),
///            vec!["| This is       | into three    | column can be  |",
///                 "| an example    | columns.      | shorter than   |",
///                 "| text, which   | Notice how    | the others.    |",
///                 "| is wrapped    | the final     |                |"]);
///
/// // Without the `smawk` feature, the middle column is a little more uneven:
/// #[cfg(not(feature = "smawk"))]
/// assert_eq!(wrap_columns(text, 3, 50, "| ", " | ", " |"),
///            vec!["| This is an    | three         | column can be  |",
///                 "| example text, | columns.      | shorter than   |",
///                 "| which is      | Notice how    | the others.    |",
///                 "| wrapped into  | the final     |                |"]);
pub fn wrap_columns<'a, Opt>(
    text: &str,
    columns: usize,
    total_width_or_options: Opt,
    left_gap: &str,
    middle_gap: &str,
    right_gap: &str,
) -> Vec<String>
where
    Opt: Into<Options<'a>>,
{
    assert!(columns > 0);

    let mut options: Options = total_width_or_options.into();

    let inner_width = options
        .width
        .saturating_sub(display_width(left_gap))
        .saturating_sub(display_width(right_gap))
        .saturating_sub(display_width(middle_gap) * (columns - 1));

    let column_width = std::cmp::max(inner_width / columns, 1);
    options.width = column_width;
    let last_column_padding = " ".repeat(inner_width % column_width);
    let wrapped_lines = wrap(text, options);
    let lines_per_column =
        wrapped_lines.len() / columns + usize::from(wrapped_lines.len() % columns > 0);
    let mut lines = Vec::new();
    for line_no in 0..lines_per_column {
        let mut line = String::from(left_gap);
        for column_no in 0..columns {
            match wrapped_lines.get(line_no + column_no * lines_per_column) {
                Some(column_line) => {
                    line.push_str(column_line);
                    // A line wider than its column protrudes into the
                    // margin instead of underflowing the padding.
                    let padding = column_width.saturating_sub(display_width(column_line));
                    line.push_str(&" ".repeat(padding));
                }
                None => {
                    line.push_str(&" ".repeat(column_width));
                }
            }
            if column_no == columns - 1 {
                line.push_str(&last_column_padding);
            } else {
                line.push_str(middle_gap);
            }
        }
        line.push_str(right_gap);
        lines.push(line);
    }

    lines
}

#[cfg(test)]
mod tests {
    use super::*;

    #[test]
    fn wrap_columns_empty_text() {
        assert_eq!(wrap_columns("", 1, 10, "| ", "", " |"), vec!["|        |"]);
    }

    #[test]
    fn wrap_columns_single_column() {
        assert_eq!(
            wrap_columns("Foo", 3, 30, "| ", " | ", " |"),
            vec!["| Foo    |        |          |"]
        );
    }

    #[test]
    fn wrap_columns_uneven_columns() {
        // The gaps take up a total of 5 columns, so the columns are
        // (21 - 5)/4 = 4 columns wide:
        assert_eq!(
            wrap_columns("Foo Bar Baz Quux", 4, 21, "|", "|", "|"),
            vec!["|Foo |Bar |Baz |Quux|"]
        );
        // As the total width increases, the last column absorbs the
        // excess width:
        assert_eq!(
            wrap_columns("Foo Bar Baz Quux", 4, 24, "|", "|", "|"),
            vec!["|Foo |Bar |Baz |Quux   |"]
        );
        // Finally, when the width is 25, the columns can be resized
        // to a width of (25 - 5)/4 = 5 columns:
        assert_eq!(
            wrap_columns("Foo Bar Baz Quux", 4, 25, "|", "|", "|"),
            vec!["|Foo  |Bar  |Baz  |Quux |"]
        );
    }

    #[test]
    #[cfg(feature = "unicode-width")]
    fn wrap_columns_with_emojis() {
        assert_eq!(
            wrap_columns(
                "Words and a few emojis 😍 wrapped in ⓶ columns",
                2,
                30,
                "✨ ",
                " ⚽ ",
                " 👀"
            ),
            vec![
                "✨ Words      ⚽ wrapped in 👀",
                "✨ and a few  ⚽ ⓶ columns  👀",
                "✨ emojis 😍  ⚽            👀"
            ]
        );
    }

    #[test]
    fn wrap_columns_big_gaps() {
        // The column width shrinks to 1 because the gaps take up all
        // the space.
        assert_eq!(
            wrap_columns("xyz", 2, 10, "----> ", " !!! ", " <----"),
            vec![
                "----> x !!! z <----", //
                "----> y !!!   <----"
            ]
        );
    }

    #[test]
    #[should_panic]
    fn wrap_columns_panic_with_zero_columns() {
        wrap_columns("", 0, 10, "", "", "");
    }
}
