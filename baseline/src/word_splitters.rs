//! Word splitting functionality.
//!
//! To wrap text into lines, long words sometimes need to be split
//! across lines. The [`WordSplitter`] enum defines this
//! functionality.

use crate::core::{display_width, Word};

/// The `WordSplitter` enum describes where words can be split.
///
/// If the textwrap crate has been compiled with the `hyphenation`
/// Cargo feature enabled, you will find a
/// [`WordSplitter::Hyphenation`] variant. Use this struct for
/// language-aware hyphenation:
///
/// ```
/// #[cfg(feature = "hyphenation")] {
///     use hyphenation::{Language, Load, Standard};
///     use textwrap::{wrap, Options, WordSplitter};
///
///     let text = "Oxidation is the loss of electrons.";
///     let dictionary = Standard::from_embedded(Language::EnglishUS).unwrap();
///     let options = Options::new(8).word_splitter(WordSplitter::Hyphenation(dictionary));
///     assert_eq!(wrap(text, &options), vec!["Oxida-",
///                                           "tion is",
///                                           "the loss",
///                                           "of elec-",
///                                           "trons."]);
/// }
/// ```
///
/// Please see the documentation for the [hyphenation] crate for more
/// details.
///
/// [hyphenation]: https://docs.rs/hyphenation/
#[derive(Debug, Clone)]
pub enum WordSplitter {
    /// Use this as a [`Options.word_splitter`] to avoid any kind of
    /// hyphenation:
    ///
    /// ```
    /// use textwrap::{wrap, Options, WordSplitter};
    ///
    /// let options = Options::new(8).word_splitter(WordSplitter::NoHyphenation);
    /// assert_eq!(wrap("foo bar-baz", &options),
    ///            vec!["foo", "bar-baz"]);
    /// ```
    ///
    /// [`Options.word_splitter`]: super::Options::word_splitter
    NoHyphenation,

    /// `HyphenSplitter` is the default `WordSplitter` used by
    /// [`Options::new`](super::Options::new). It will split words on
    /// existing hyphens in the word.
    ///
    /// It will only use hyphens that are surrounded by alphanumeric
    /// characters, which prevents a word like `"--foo-bar"` from
    /// being split into `"--"` and `"foo-bar"`.
    ///
    /// # Examples
    ///
    /// ```
    /// use textwrap::WordSplitter;
    ///
    /// assert_eq!(WordSplitter::HyphenSplitter.split_points("--foo-bar"),
    ///            vec![6]);
    /// ```
    HyphenSplitter,

    /// Use a custom function as the word splitter.
    ///
    /// This variant lets you implement a custom word splitter using
    /// your own function.
    ///
    /// # Examples
    ///
    /// ```
    /// use textwrap::WordSplitter;
    ///
    /// fn split_at_underscore(word: &str) -> Vec<usize> {
    ///     word.match_indices('_').map(|(idx, _)| idx + 1).collect()
    /// }
    ///
    /// let word_splitter = WordSplitter::Custom(split_at_underscore);
    /// assert_eq!(word_splitter.split_points("a_long_identifier"),
    ///            vec![2, 7]);
    /// ```
    Custom(fn(word: &str) -> Vec<usize>),

    /// A hyphenation dictionary can be used to do language-specific
    /// hyphenation using patterns from the [hyphenation] crate.
    ///
    /// **Note:** Only available when the `hyphenation` Cargo feature is
    /// enabled.
    ///
    /// [hyphenation]: https://docs.rs/hyphenation/
    #[cfg(feature = "hyphenation")]
    Hyphenation(hyphenation::Standard),
}

impl PartialEq<WordSplitter> for WordSplitter {
    fn eq(&self, other: &WordSplitter) -> bool {
        match (self, other) {
            (WordSplitter::NoHyphenation, WordSplitter::NoHyphenation) => true,
            (WordSplitter::HyphenSplitter, WordSplitter::HyphenSplitter) => true,
            #[cfg(feature = "hyphenation")]
            (WordSplitter::Hyphenation(this_dict), WordSplitter::Hyphenation(other_dict)) => {
                this_dict.language() == other_dict.language()
            }
            (_, _) => false,
        }
    }
}

impl WordSplitter {
    /// Return all possible indices where `word` can be split.
    ///
    /// The indices are in the range `0..word.len()`. They point to
    /// the index _after_ the split point, i.e., after `-` if
    /// splitting on hyphens. This way, `word.split_at(idx)` will
    /// break the word into two well-formed pieces.
    ///
    /// # Examples
    ///
    /// ```
    /// use textwrap::WordSplitter;
    /// assert_eq!(WordSplitter::NoHyphenation.split_points("cannot-be-split"), vec![]);
    /// assert_eq!(WordSplitter::HyphenSplitter.split_points("can-be-split"), vec![4, 7]);
    /// assert_eq!(WordSplitter::Custom(|word| vec![word.len()/2]).split_points("middle"), vec![3]);
    /// ```
    pub fn split_points(&self, word: &str) -> Vec<usize> {
        match self {
            WordSplitter::NoHyphenation => Vec::new(),
            WordSplitter::HyphenSplitter => {
                let mut splits = Vec::new();

                for (idx, _) in word.match_indices('-') {
                    // We only use hyphens that are surrounded by alphanumeric
                    // characters. This is to avoid splitting on repeated hyphens,
                    // such as those found in --foo-bar.
                    let prev = word[..idx].chars().next_back();
                    let next = word[idx + 1..].chars().next();

                    if prev.filter(|ch| ch.is_alphanumeric()).is_some()
                        && next.filter(|ch| ch.is_alphanumeric()).is_some()
                    {
                        splits.push(idx + 1); // +1 due to width of '-'.
                    }
                }

                splits
            }
            WordSplitter::Custom(splitter_func) => splitter_func(word),
            #[cfg(feature = "hyphenation")]
            WordSplitter::Hyphenation(dictionary) => {
                use hyphenation::Hyphenator;
                dictionary.hyphenate(word).breaks
            }
        }
    }
}

/// Split words into smaller words according to the split points given
/// by `word_splitter`.
///
/// Note that we split all words, regardless of their length. This is
/// to more cleanly separate the business of splitting (including
/// automatic hyphenation) from the business of word wrapping.
pub fn split_words<'a, I>(
    words: I,
    word_splitter: &'a WordSplitter,
) -> impl Iterator<Item = Word<'a>>
where
    I: IntoIterator<Item = Word<'a>>,
{
    words.into_iter().flat_map(move |word| {
        let mut prev = 0;
        let mut split_points = word_splitter.split_points(&word).into_iter();
        std::iter::from_fn(move || {
            if let Some(idx) = split_points.next() {
                let need_hyphen = !word[..idx].ends_with('-');
                let w = Word {
                    word: &word.word[prev..idx],
                    width: display_width(&word[prev..idx]),
                    whitespace: "",
                    penalty: if need_hyphen { "-" } else { "" },
                };
                prev = idx;
                return Some(w);
            }

            if prev < word.word.len() || prev == 0 {
                let w = Word {
                    word: &word.word[prev..],
                    width: display_width(&word[prev..]),
                    whitespace: word.whitespace,
                    penalty: word.penalty,
                };
                prev = word.word.len() + 1;
                return Some(w);
            }

            None
        })
    })
}

#[cfg(test)]
mod tests {
    use super::*;

    // Like assert_eq!, but the left expression is an iterator.
    macro_rules! assert_iter_eq {
        ($left:expr, $right:expr) => {
            assert_eq!($left.collect::<Vec<_>>(), $right);
        };
    }

    #[test]
    fn split_words_no_words() {
        assert_iter_eq!(split_words(vec![], &WordSplitter::HyphenSplitter), vec![]);
    }

    #[test]
    fn split_words_empty_word() {
        assert_iter_eq!(
            split_words(vec![Word::from("   ")], &WordSplitter::HyphenSplitter),
            vec![Word::from("   ")]
        );
    }

    #[test]
    fn split_words_single_word() {
        assert_iter_eq!(
            split_words(vec![Word::from("foobar")], &WordSplitter::HyphenSplitter),
            vec![Word::from("foobar")]
        );
    }

    #[test]
    fn split_words_hyphen_splitter() {
        assert_iter_eq!(
            split_words(vec![Word::from("foo-bar")], &WordSplitter::HyphenSplitter),
            vec![Word::from("foo-"), Word::from("bar")]
        );
    }

    #[test]
    fn split_words_no_hyphenation() {
        assert_iter_eq!(
            split_words(vec![Word::from("foo-bar")], &WordSplitter::NoHyphenation),
            vec![Word::from("foo-bar")]
        );
    }

    #[test]
    fn split_words_adds_penalty() {
        let fixed_split_point = |_: &str| vec![3];

        assert_iter_eq!(
            split_words(
                vec![Word::from("foobar")].into_iter(),
                &WordSplitter::Custom(fixed_split_point)
            ),
            vec![
                Word {
                    word: "foo",
                    width: 3,
                    whitespace: "",
                    penalty: "-"
                },
                Word {
                    word: "bar",
                    width: 3,
                    whitespace: "",
                    penalty: ""
                }
            ]
        );

        assert_iter_eq!(
            split_words(
                vec![Word::from("fo-bar")].into_iter(),
                &WordSplitter::Custom(fixed_split_point)
            ),
            vec![
                Word {
                    word: "fo-",
                    width: 3,
                    whitespace: "",
                    penalty: ""
                },
                Word {
                    word: "bar",
                    width: 3,
                    whitespace: "",
                    penalty: ""
                }
            ]
        );
    }
}
