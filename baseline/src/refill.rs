//! Functionality for unfilling and refilling text.

use crate::core::display_width;
use crate::line_ending::NonEmptyLines;
use crate::{fill, LineEnding, Options};

/// Unpack a paragraph of already-wrapped text.
///
/// This function attempts to recover the original text from a single
/// paragraph of wrapped text, such as what [`fill()`] would produce.
/// This means that it turns
///
/// ```text
/// textwrap: a small
/// library for
/// wrapping text.
/// ```
///
/// back into
///
/// ```text
/// textwrap: a small library for wrapping text.
/// ```
///
/// In addition, it will recognize a common prefix and a common line
/// ending among the lines.
///
/// The prefix of the first line is returned in
/// [`Options::initial_indent`] and the prefix (if any) of the the
/// other lines is returned in [`Options::subsequent_indent`].
///
/// Line ending is returned in [`Options::line_ending`]. If line ending
/// can not be confidently detected (mixed or no line endings in the
/// input), [`LineEnding::LF`] will be returned.
///
/// In addition to `' '`, the prefixes can consist of characters used
/// for unordered lists (`'-'`, `'+'`, and `'*'`) and block quotes
/// (`'>'`) in Markdown as well as characters often used for inline
/// comments (`'#'` and `'/'`).
///
/// The text must come from a single wrapped paragraph. This means
/// that there can be no empty lines (`"\n\n"` or `"\r\n\r\n"`) within
/// the text. It is unspecified what happens if `unfill` is called on
/// more than one paragraph of text.
///
/// # Examples
///
/// ```
/// use textwrap::{LineEnding, unfill};
///
/// let (text, options) = unfill("\
/// * This is an
///   example of
///   a list item.
/// ");
///
/// assert_eq!(text, "This is an example of a list item.\n");
/// assert_eq!(options.initial_indent, "* ");
/// assert_eq!(options.subsequent_indent, "  ");
/// assert_eq!(options.line_ending, LineEnding::LF);
/// ```
pub fn unfill(text: &str) -> (String, Options<'_>) {
    let prefix_chars: &[_] = &[' ', '-', '+', '*', '>', '#', '/'];

    let mut options = Options::new(0);
    for (idx, line) in text.lines().enumerate() {
        options.width = std::cmp::max(options.width, display_width(line));
        let without_prefix = line.trim_start_matches(prefix_chars);
        let prefix = &line[..line.len() - without_prefix.len()];

        if idx == 0 {
            options.initial_indent = prefix;
        } else if idx == 1 {
            options.subsequent_indent = prefix;
        } else if idx > 1 {
            for ((idx, x), y) in prefix.char_indices().zip(options.subsequent_indent.chars()) {
                if x != y {
                    options.subsequent_indent = &prefix[..idx];
                    break;
                }
            }
            if prefix.len() < options.subsequent_indent.len() {
                options.subsequent_indent = prefix;
            }
        }
    }

    let mut unfilled = String::with_capacity(text.len());
    let mut detected_line_ending = None;

    for (idx, (line, ending)) in NonEmptyLines(text).enumerate() {
        if idx == 0 {
            unfilled.push_str(&line[options.initial_indent.len()..]);
        } else {
            unfilled.push(' ');
            unfilled.push_str(&line[options.subsequent_indent.len()..]);
        }
        match (detected_line_ending, ending) {
            (None, Some(_)) => detected_line_ending = ending,
            (Some(LineEnding::CRLF), Some(LineEnding::LF)) => detected_line_ending = ending,
            _ => (),
        }
    }

    // Add back a line ending if `text` ends with the one we detect.
    if let Some(line_ending) = detected_line_ending {
        if text.ends_with(line_ending.as_str()) {
            unfilled.push_str(line_ending.as_str());
        }
    }

    options.line_ending = detected_line_ending.unwrap_or(LineEnding::LF);
    (unfilled, options)
}

/// Refill a paragraph of wrapped text with a new width.
///
/// This function will first use [`unfill()`] to remove newlines from
/// the text. Afterwards the text is filled again using [`fill()`].
///
/// The `new_width_or_options` argument specify the new width and can
/// specify other options as well — except for
/// [`Options::initial_indent`] and [`Options::subsequent_indent`],
/// which are deduced from `filled_text`.
///
/// # Examples
///
/// ```
/// use textwrap::refill;
///
/// // Some loosely wrapped text. The "> " prefix is recognized automatically.
/// let text = "\
/// > Memory
/// > safety without garbage
/// > collection.
/// ";
///
/// assert_eq!(refill(text, 20), "\
/// > Memory safety
/// > without garbage
/// > collection.
/// ");
///
/// assert_eq!(refill(text, 40), "\
/// > Memory safety without garbage
/// > collection.
/// ");
///
/// assert_eq!(refill(text, 60), "\
/// > Memory safety without garbage collection.
/// ");
/// ```
///
/// You can also reshape bullet points:
///
/// ```
/// use textwrap::refill;
///
/// let text = "\
/// - This is my
///   list item.
/// ";
///
/// assert_eq!(refill(text, 20), "\
/// - This is my list
///   item.
/// ");
/// ```
pub fn refill<'a, Opt>(filled_text: &str, new_width_or_options: Opt) -> String
where
    Opt: Into<Options<'a>>,
{
    let mut new_options = new_width_or_options.into();
    let (text, options) = unfill(filled_text);
    // The original line ending is kept by `unfill`.
    let stripped = text.strip_suffix(options.line_ending.as_str());
    let new_line_ending = new_options.line_ending.as_str();

    new_options.initial_indent = options.initial_indent;
    new_options.subsequent_indent = options.subsequent_indent;
    let mut refilled = fill(stripped.unwrap_or(&text), new_options);

    // Add back right line ending if we stripped one off above.
    if stripped.is_some() {
        refilled.push_str(new_line_ending);
    }
    refilled
}

#[cfg(test)]
mod tests {
    use super::*;

    #[test]
    fn unfill_simple() {
        let (text, options) = unfill("foo\nbar");
        assert_eq!(text, "foo bar");
        assert_eq!(options.width, 3);
        assert_eq!(options.line_ending, LineEnding::LF);
    }

    #[test]
    fn unfill_no_new_line() {
        let (text, options) = unfill("foo bar");
        assert_eq!(text, "foo bar");
        assert_eq!(options.width, 7);
        assert_eq!(options.line_ending, LineEnding::LF);
    }

    #[test]
    fn unfill_simple_crlf() {
        let (text, options) = unfill("foo\r\nbar");
        assert_eq!(text, "foo bar");
        assert_eq!(options.width, 3);
        assert_eq!(options.line_ending, LineEnding::CRLF);
    }

    #[test]
    fn unfill_mixed_new_lines() {
        let (text, options) = unfill("foo\r\nbar\nbaz");
        assert_eq!(text, "foo bar baz");
        assert_eq!(options.width, 3);
        assert_eq!(options.line_ending, LineEnding::LF);
    }

    #[test]
    fn test_unfill_consecutive_different_prefix() {
        let (text, options) = unfill("foo\n*\n/");
        assert_eq!(text, "foo * /");
        assert_eq!(options.width, 3);
        assert_eq!(options.line_ending, LineEnding::LF);
    }

    #[test]
    fn unfill_trailing_newlines() {
        let (text, options) = unfill("foo\nbar\n\n\n");
        assert_eq!(text, "foo bar\n");
        assert_eq!(options.width, 3);
    }

    #[test]
    fn unfill_mixed_trailing_newlines() {
        let (text, options) = unfill("foo\r\nbar\n\r\n\n");
        assert_eq!(text, "foo bar\n");
        assert_eq!(options.width, 3);
        assert_eq!(options.line_ending, LineEnding::LF);
    }

    #[test]
    fn unfill_trailing_crlf() {
        let (text, options) = unfill("foo bar\r\n");
        assert_eq!(text, "foo bar\r\n");
        assert_eq!(options.width, 7);
        assert_eq!(options.line_ending, LineEnding::CRLF);
    }

    #[test]
    fn unfill_initial_indent() {
        let (text, options) = unfill("  foo\nbar\nbaz");
        assert_eq!(text, "foo bar baz");
        assert_eq!(options.width, 5);
        assert_eq!(options.initial_indent, "  ");
    }

    #[test]
    fn unfill_differing_indents() {
        let (text, options) = unfill("  foo\n    bar\n  baz");
        assert_eq!(text, "foo   bar baz");
        assert_eq!(options.width, 7);
        assert_eq!(options.initial_indent, "  ");
        assert_eq!(options.subsequent_indent, "  ");
    }

    #[test]
    fn unfill_list_item() {
        let (text, options) = unfill("* foo\n  bar\n  baz");
        assert_eq!(text, "foo bar baz");
        assert_eq!(options.width, 5);
        assert_eq!(options.initial_indent, "* ");
        assert_eq!(options.subsequent_indent, "  ");
    }

    #[test]
    fn unfill_multiple_char_prefix() {
        let (text, options) = unfill("    // foo bar\n    // baz\n    // quux");
        assert_eq!(text, "foo bar baz quux");
        assert_eq!(options.width, 14);
        assert_eq!(options.initial_indent, "    // ");
        assert_eq!(options.subsequent_indent, "    // ");
    }

    #[test]
    fn unfill_block_quote() {
        let (text, options) = unfill("> foo\n> bar\n> baz");
        assert_eq!(text, "foo bar baz");
        assert_eq!(options.width, 5);
        assert_eq!(options.initial_indent, "> ");
        assert_eq!(options.subsequent_indent, "> ");
    }

    #[test]
    fn unfill_only_prefixes_issue_466() {
        // Test that we don't crash if the first line has only prefix
        // chars *and* the second line is shorter than the first line.
        let (text, options) = unfill("######\nfoo");
        assert_eq!(text, " foo");
        assert_eq!(options.width, 6);
        assert_eq!(options.initial_indent, "######");
        assert_eq!(options.subsequent_indent, "");
    }

    #[test]
    fn unfill_trailing_newlines_issue_466() {
        // Test that we don't crash on a '\r' following a string of
        // '\n'. The problem was that we removed both kinds of
        // characters in one code path, but not in the other.
        let (text, options) = unfill("foo\n##\n\n\r");
        // The \n\n changes subsequent_indent to "".
        assert_eq!(text, "foo ## \r");
        assert_eq!(options.width, 3);
        assert_eq!(options.initial_indent, "");
        assert_eq!(options.subsequent_indent, "");
    }

    #[test]
    fn unfill_whitespace() {
        assert_eq!(unfill("foo   bar").0, "foo   bar");
    }

    #[test]
    fn refill_convert_lf_to_crlf() {
        let options = Options::new(5).line_ending(LineEnding::CRLF);
        assert_eq!(refill("foo\nbar\n", options), "foo\r\nbar\r\n",);
    }

    #[test]
    fn refill_convert_crlf_to_lf() {
        let options = Options::new(5).line_ending(LineEnding::LF);
        assert_eq!(refill("foo\r\nbar\r\n", options), "foo\nbar\n",);
    }

    #[test]
    fn refill_convert_mixed_newlines() {
        let options = Options::new(5).line_ending(LineEnding::CRLF);
        assert_eq!(refill("foo\r\nbar\n", options), "foo\r\nbar\r\n",);
    }

    #[test]
    fn refill_defaults_to_lf() {
        assert_eq!(refill("foo bar baz", 5), "foo\nbar\nbaz");
    }
}
