//! Functions for wrapping text.

use std::borrow::Cow;

use crate::core::{break_words, display_width, Word};
use crate::word_splitters::split_words;
use crate::Options;

/// Wrap a line of text at a given width.
///
/// The result is a vector of lines, each line is of type [`Cow<'_,
/// str>`](Cow), which means that the line will borrow from the input
/// `&str` if possible. The lines do not have trailing whitespace,
/// including a final `'\n'`. Please use [`fill()`](crate::fill()) if
/// you need a [`String`] instead.
///
/// The easiest way to use this function is to pass an integer for
/// `width_or_options`:
///
/// ```
/// use textwrap::wrap;
///
/// let lines = wrap("Memory safety without garbage collection.", 15);
/// assert_eq!(lines, &[
///     "Memory safety",
///     "without garbage",
///     "collection.",
/// ]);
/// ```
///
/// If you need to customize the wrapping, you can pass an [`Options`]
/// instead of an `usize`:
///
/// ```
/// use textwrap::{wrap, Options};
///
/// let options = Options::new(15)
///     .initial_indent("- ")
///     .subsequent_indent("  ");
/// let lines = wrap("Memory safety without garbage collection.", &options);
/// assert_eq!(lines, &[
///     "- Memory safety",
///     "  without",
///     "  garbage",
///     "  collection.",
/// ]);
/// ```
///
/// # Optimal-Fit Wrapping
///
/// By default, `wrap` will try to ensure an even right margin by
/// finding breaks which avoid short lines. We call this an
/// “optimal-fit algorithm” since the line breaks are computed by
/// considering all possible line breaks. The alternative is a
/// “first-fit algorithm” which simply accumulates words until they no
/// longer fit on the line.
///
/// As an example, using the first-fit algorithm to wrap the famous
/// Hamlet quote “To be, or not to be: that is the question” in a
/// narrow column with room for only 10 characters looks like this:
///
/// ```
/// # use textwrap::{WrapAlgorithm::FirstFit, Options, wrap};
/// #
/// # let lines = wrap("To be, or not to be: that is the question",
/// #                  Options::new(10).wrap_algorithm(FirstFit));
/// # assert_eq!(lines.join("\n") + "\n", "\
/// To be, or
/// not to be:
/// that is
/// the
/// question
/// # ");
/// ```
///
/// Notice how the second to last line is quite narrow because
/// “question” was too large to fit? The greedy first-fit algorithm
/// doesn’t look ahead, so it has no other option than to put
/// “question” onto its own line.
///
/// With the optimal-fit wrapping algorithm, the previous lines are
/// shortened slightly in order to make the word “is” go into the
/// second last line:
///
/// ```
/// # #[cfg(feature = "smawk")] {
/// # use textwrap::{Options, WrapAlgorithm, wrap};
/// #
/// # let lines = wrap(
/// #     "To be, or not to be: that is the question",
/// #     Options::new(10).wrap_algorithm(WrapAlgorithm::new_optimal_fit())
/// # );
/// # assert_eq!(lines.join("\n") + "\n", "\
/// To be,
/// or not to
/// be: that
/// is the
/// question
/// # "); }
/// ```
///
/// Please see [`WrapAlgorithm`](crate::WrapAlgorithm) for details on
/// the choices.
///
/// # Examples
///
/// The returned iterator yields lines of type `Cow<'_, str>`. If
/// possible, the wrapped lines will borrow from the input string. As
/// an example, a hanging indentation, the first line can borrow from
/// the input, but the subsequent lines become owned strings:
///
/// ```
/// use std::borrow::Cow::{Borrowed, Owned};
/// use textwrap::{wrap, Options};
///
/// let options = Options::new(15).subsequent_indent("....");
/// let lines = wrap("Wrapping text all day long.", &options);
/// let annotated = lines
///     .iter()
///     .map(|line| match line {
///         Borrowed(text) => format!("[Borrowed] {}", text),
///         Owned(text) => format!("[Owned]    {}", text),
///     })
///     .collect::<Vec<_>>();
/// assert_eq!(
///     annotated,
///     &[
///         "[Borrowed] Wrapping text",
///         "[Owned]    ....all day",
///         "[Owned]    ....long.",
///     ]
/// );
/// ```
///
/// ## Leading and Trailing Whitespace
///
/// As a rule, leading whitespace (indentation) is preserved and
/// trailing whitespace is discarded.
///
/// In more details, when wrapping words into lines, words are found
/// by splitting the input text on space characters. One or more
/// spaces (shown here as “␣”) are attached to the end of each word:
///
/// ```text
/// "Foo␣␣␣bar␣baz" -> ["Foo␣␣␣", "bar␣", "baz"]
/// ```
///
/// These words are then put into lines. The interword whitespace is
/// preserved, unless the lines are wrapped so that the `"Foo␣␣␣"`
/// word falls at the end of a line:
///
/// ```
/// use textwrap::wrap;
///
/// assert_eq!(wrap("Foo   bar baz", 10), vec!["Foo   bar", "baz"]);
/// assert_eq!(wrap("Foo   bar baz", 8), vec!["Foo", "bar baz"]);
/// ```
///
/// Notice how the trailing whitespace is removed in both case: in the
/// first example, `"bar␣"` becomes `"bar"` and in the second case
/// `"Foo␣␣␣"` becomes `"Foo"`.
///
/// Leading whitespace is preserved when the following word fits on
/// the first line. To understand this, consider how words are found
/// in a text with leading spaces:
///
/// ```text
/// "␣␣foo␣bar" -> ["␣␣", "foo␣", "bar"]
/// ```
///
/// When put into lines, the indentation is preserved if `"foo"` fits
/// on the first line, otherwise you end up with an empty line:
///
/// ```
/// use textwrap::wrap;
///
/// assert_eq!(wrap("  foo bar", 8), vec!["  foo", "bar"]);
/// assert_eq!(wrap("  foo bar", 4), vec!["", "foo", "bar"]);
/// ```
pub fn wrap<'a, Opt>(text: &str, width_or_options: Opt) -> Vec<Cow<'_, str>>
where
    Opt: Into<Options<'a>>,
{
    let options: Options = width_or_options.into();
    let line_ending_str = options.line_ending.as_str();

    let mut lines = Vec::new();
    for line in text.split(line_ending_str) {
        wrap_single_line(line, &options, &mut lines);
    }

    lines
}

pub(crate) fn wrap_single_line<'a>(
    line: &'a str,
    options: &Options<'_>,
    lines: &mut Vec<Cow<'a, str>>,
) {
    let indent = if lines.is_empty() {
        options.initial_indent
    } else {
        options.subsequent_indent
    };
    if line.len() < options.width && indent.is_empty() {
        lines.push(Cow::from(line.trim_end_matches(' ')));
    } else {
        wrap_single_line_slow_path(line, options, lines)
    }
}

/// Wrap a single line of text.
///
/// This is taken when `line` is longer than `options.width`.
pub(crate) fn wrap_single_line_slow_path<'a>(
    line: &'a str,
    options: &Options<'_>,
    lines: &mut Vec<Cow<'a, str>>,
) {
    let initial_width = options
        .width
        .saturating_sub(display_width(options.initial_indent));
    let subsequent_width = options
        .width
        .saturating_sub(display_width(options.subsequent_indent));
    // Only the very first output line carries the initial indent:
    // the first line of a later paragraph starts with the subsequent
    // indent and must be measured against that.
    let (first_width, first_indent) = if lines.is_empty() {
        (initial_width, options.initial_indent)
    } else {
        (subsequent_width, options.subsequent_indent)
    };
    let line_widths = [first_width, subsequent_width];

    let words = options.word_separator.find_words(line);
    let split_words = split_words(words, &options.word_splitter);
    let broken_words = if options.break_words {
        let mut broken_words = break_words(split_words, line_widths[1]);
        if !first_indent.is_empty() {
            // Without this, the first word will always go into the
            // first line. However, since we break words based on the
            // _second_ line width, it can be wrong to unconditionally
            // put the first word onto the first line. An empty
            // zero-width word fixed this.
            broken_words.insert(0, Word::from(""));
        }
        broken_words
    } else {
        split_words.collect::<Vec<_>>()
    };

    let wrapped_words = options.wrap_algorithm.wrap(&broken_words, &line_widths);

    let mut idx = 0;
    for words in wrapped_words {
        let last_word = match words.last() {
            None => {
                // An empty line still carries its indent.
                let indent = if lines.is_empty() {
                    options.initial_indent
                } else {
                    options.subsequent_indent
                };
                lines.push(if indent.is_empty() {
                    Cow::from("")
                } else {
                    Cow::Owned(indent.to_owned())
                });
                continue;
            }
            Some(word) => word,
        };

        // We assume here that all words are contiguous in `line`.
        // That is, the sum of their lengths should add up to the
        // length of `line`.
        let len = words
            .iter()
            .map(|word| word.len() + word.whitespace.len())
            .sum::<usize>()
            - last_word.whitespace.len();

        // The result is owned if we have indentation, otherwise we
        // can simply borrow an empty string.
        let mut result = if lines.is_empty() && !options.initial_indent.is_empty() {
            Cow::Owned(options.initial_indent.to_owned())
        } else if !lines.is_empty() && !options.subsequent_indent.is_empty() {
            Cow::Owned(options.subsequent_indent.to_owned())
        } else {
            // We can use an empty string here since string
            // concatenation for `Cow` preserves a borrowed value when
            // either side is empty.
            Cow::from("")
        };

        result += &line[idx..idx + len];

        if !last_word.penalty.is_empty() {
            result.to_mut().push_str(last_word.penalty);
        }

        lines.push(result);

        // Advance by the length of `result`, plus the length of
        // `last_word.whitespace` -- even if we had a penalty, we need
        // to skip over the whitespace.
        idx += len + last_word.whitespace.len();
    }
}

#[cfg(test)]
mod tests {
    use super::*;
    use crate::{WordSeparator, WordSplitter, WrapAlgorithm};

    #[cfg(feature = "hyphenation")]
    use hyphenation::{Language, Load, Standard};

    #[test]
    fn no_wrap() {
        assert_eq!(wrap("foo", 10), vec!["foo"]);
    }

    #[test]
    fn wrap_simple() {
        assert_eq!(wrap("foo bar baz", 5), vec!["foo", "bar", "baz"]);
    }

    #[test]
    fn to_be_or_not() {
        assert_eq!(
            wrap(
                "To be, or not to be, that is the question.",
                Options::new(10).wrap_algorithm(WrapAlgorithm::FirstFit)
            ),
            vec!["To be, or", "not to be,", "that is", "the", "question."]
        );
    }

    #[test]
    fn multiple_words_on_first_line() {
        assert_eq!(wrap("foo bar baz", 10), vec!["foo bar", "baz"]);
    }

    #[test]
    fn long_word() {
        assert_eq!(wrap("foo", 0), vec!["f", "o", "o"]);
    }

    #[test]
    fn long_words() {
        assert_eq!(wrap("foo bar", 0), vec!["f", "o", "o", "b", "a", "r"]);
    }

    #[test]
    fn max_width() {
        assert_eq!(wrap("foo bar", usize::MAX), vec!["foo bar"]);

        let text = "Hello there! This is some English text. \
                    It should not be wrapped given the extents below.";
        assert_eq!(wrap(text, usize::MAX), vec![text]);
    }

    #[test]
    fn leading_whitespace() {
        assert_eq!(wrap("  foo bar", 6), vec!["  foo", "bar"]);
    }

    #[test]
    fn leading_whitespace_empty_first_line() {
        // If there is no space for the first word, the first line
        // will be empty. This is because the string is split into
        // words like [" ", "foobar ", "baz"], which puts "foobar " on
        // the second line. We never output trailing whitespace
        assert_eq!(wrap(" foobar baz", 6), vec!["", "foobar", "baz"]);
    }

    #[test]
    fn trailing_whitespace() {
        // Whitespace is only significant inside a line. After a line
        // gets too long and is broken, the first word starts in
        // column zero and is not indented.
        assert_eq!(wrap("foo     bar     baz  ", 5), vec!["foo", "bar", "baz"]);
    }

    #[test]
    fn issue_99() {
        // We did not reset the in_whitespace flag correctly and did
        // not handle single-character words after a line break.
        assert_eq!(
            wrap("aaabbbccc x yyyzzzwww", 9),
            vec!["aaabbbccc", "x", "yyyzzzwww"]
        );
    }

    #[test]
    fn issue_129() {
        // The dash is an em-dash which takes up four bytes. We used
        // to panic since we tried to index into the character.
        let options = Options::new(1).word_separator(WordSeparator::AsciiSpace);
        assert_eq!(wrap("x – x", options), vec!["x", "–", "x"]);
    }

    #[test]
    fn wide_character_handling() {
        assert_eq!(wrap("Hello, World!", 15), vec!["Hello, World!"]);
        assert_eq!(
            wrap(
                "Ｈｅｌｌｏ, Ｗｏｒｌｄ!",
                Options::new(15).word_separator(WordSeparator::AsciiSpace)
            ),
            vec!["Ｈｅｌｌｏ,", "Ｗｏｒｌｄ!"]
        );

        // Wide characters are allowed to break if the
        // unicode-linebreak feature is enabled.
        #[cfg(feature = "unicode-linebreak")]
        assert_eq!(
            wrap(
                "Ｈｅｌｌｏ, Ｗｏｒｌｄ!",
                Options::new(15).word_separator(WordSeparator::UnicodeBreakProperties),
            ),
            vec!["Ｈｅｌｌｏ, Ｗ", "ｏｒｌｄ!"]
        );
    }

    #[test]
    fn indent_empty_line() {
        // Previously, indentation was not applied to empty lines.
        // However, this is somewhat inconsistent and undesirable if
        // the indentation is something like a border ("| ") which you
        // want to apply to all lines, empty or not.
        let options = Options::new(10).initial_indent("!!!");
        assert_eq!(wrap("", &options), vec!["!!!"]);
    }

    #[test]
    fn indent_single_line() {
        let options = Options::new(10).initial_indent(">>>"); // No trailing space
        assert_eq!(wrap("foo", &options), vec![">>>foo"]);
    }

    #[test]
    fn indent_first_emoji() {
        let options = Options::new(10).initial_indent("👉👉");
        assert_eq!(
            wrap("x x x x x x x x x x x x x", &options),
            vec!["👉👉x x x", "x x x x x", "x x x x x"]
        );
    }

    #[test]
    fn indent_multiple_lines() {
        let options = Options::new(6).initial_indent("* ").subsequent_indent("  ");
        assert_eq!(
            wrap("foo bar baz", &options),
            vec!["* foo", "  bar", "  baz"]
        );
    }

    #[test]
    fn only_initial_indent_multiple_lines() {
        let options = Options::new(10).initial_indent("  ");
        assert_eq!(wrap("foo\nbar\nbaz", &options), vec!["  foo", "bar", "baz"]);
    }

    #[test]
    fn only_subsequent_indent_multiple_lines() {
        let options = Options::new(10).subsequent_indent("  ");
        assert_eq!(
            wrap("foo\nbar\nbaz", &options),
            vec!["foo", "  bar", "  baz"]
        );
    }

    #[test]
    fn indent_break_words() {
        let options = Options::new(5).initial_indent("* ").subsequent_indent("  ");
        assert_eq!(wrap("foobarbaz", &options), vec!["* foo", "  bar", "  baz"]);
    }

    #[test]
    fn initial_indent_break_words() {
        // This is a corner-case showing how the long word is broken
        // according to the width of the subsequent lines. The first
        // fragment of the word no longer fits on the first line,
        // which ends up being pure indentation.
        let options = Options::new(5).initial_indent("-->");
        assert_eq!(wrap("foobarbaz", &options), vec!["-->", "fooba", "rbaz"]);
    }

    #[test]
    fn hyphens() {
        assert_eq!(wrap("foo-bar", 5), vec!["foo-", "bar"]);
    }

    #[test]
    fn trailing_hyphen() {
        let options = Options::new(5).break_words(false);
        assert_eq!(wrap("foobar-", &options), vec!["foobar-"]);
    }

    #[test]
    fn multiple_hyphens() {
        assert_eq!(wrap("foo-bar-baz", 5), vec!["foo-", "bar-", "baz"]);
    }

    #[test]
    fn hyphens_flag() {
        let options = Options::new(5).break_words(false);
        assert_eq!(
            wrap("The --foo-bar flag.", &options),
            vec!["The", "--foo-", "bar", "flag."]
        );
    }

    #[test]
    fn repeated_hyphens() {
        let options = Options::new(4).break_words(false);
        assert_eq!(wrap("foo--bar", &options), vec!["foo--bar"]);
    }

    #[test]
    fn hyphens_alphanumeric() {
        assert_eq!(wrap("Na2-CH4", 5), vec!["Na2-", "CH4"]);
    }

    #[test]
    fn hyphens_non_alphanumeric() {
        let options = Options::new(5).break_words(false);
        assert_eq!(wrap("foo(-)bar", &options), vec!["foo(-)bar"]);
    }

    #[test]
    fn multiple_splits() {
        assert_eq!(wrap("foo-bar-baz", 9), vec!["foo-bar-", "baz"]);
    }

    #[test]
    fn forced_split() {
        let options = Options::new(5).break_words(false);
        assert_eq!(wrap("foobar-baz", &options), vec!["foobar-", "baz"]);
    }

    #[test]
    fn multiple_unbroken_words_issue_193() {
        let options = Options::new(3).break_words(false);
        assert_eq!(
            wrap("small large tiny", &options),
            vec!["small", "large", "tiny"]
        );
        assert_eq!(
            wrap("small  large   tiny", &options),
            vec!["small", "large", "tiny"]
        );
    }

    #[test]
    fn very_narrow_lines_issue_193() {
        let options = Options::new(1).break_words(false);
        assert_eq!(wrap("fooo x y", &options), vec!["fooo", "x", "y"]);
        assert_eq!(wrap("fooo   x     y", &options), vec!["fooo", "x", "y"]);
    }

    #[test]
    fn simple_hyphens() {
        let options = Options::new(8).word_splitter(WordSplitter::HyphenSplitter);
        assert_eq!(wrap("foo bar-baz", &options), vec!["foo bar-", "baz"]);
    }

    #[test]
    fn no_hyphenation() {
        let options = Options::new(8).word_splitter(WordSplitter::NoHyphenation);
        assert_eq!(wrap("foo bar-baz", &options), vec!["foo", "bar-baz"]);
    }

    #[test]
    #[cfg(feature = "hyphenation")]
    fn auto_hyphenation_double_hyphenation() {
        let dictionary = Standard::from_embedded(Language::EnglishUS).unwrap();
        let options = Options::new(10);
        assert_eq!(
            wrap("Internationalization", &options),
            vec!["Internatio", "nalization"]
        );

        let options = Options::new(10).word_splitter(WordSplitter::Hyphenation(dictionary));
        assert_eq!(
            wrap("Internationalization", &options),
            vec!["Interna-", "tionaliza-", "tion"]
        );
    }

    #[test]
    #[cfg(feature = "hyphenation")]
    fn auto_hyphenation_issue_158() {
        let dictionary = Standard::from_embedded(Language::EnglishUS).unwrap();
        let options = Options::new(10);
        assert_eq!(
            wrap("participation is the key to success", &options),
            vec!["participat", "ion is", "the key to", "success"]
        );

        let options = Options::new(10).word_splitter(WordSplitter::Hyphenation(dictionary));
        assert_eq!(
            wrap("participation is the key to success", &options),
            vec!["partici-", "pation is", "the key to", "success"]
        );
    }

    #[test]
    #[cfg(feature = "hyphenation")]
    fn split_len_hyphenation() {
        // Test that hyphenation takes the width of the whitespace
        // into account.
        let dictionary = Standard::from_embedded(Language::EnglishUS).unwrap();
        let options = Options::new(15).word_splitter(WordSplitter::Hyphenation(dictionary));
        assert_eq!(
            wrap("garbage   collection", &options),
            vec!["garbage   col-", "lection"]
        );
    }

    #[test]
    #[cfg(feature = "hyphenation")]
    fn borrowed_lines() {
        // Lines that end with an extra hyphen are owned, the final
        // line is borrowed.
        use std::borrow::Cow::{Borrowed, Owned};
        let dictionary = Standard::from_embedded(Language::EnglishUS).unwrap();
        let options = Options::new(10).word_splitter(WordSplitter::Hyphenation(dictionary));
        let lines = wrap("Internationalization", &options);
        assert_eq!(lines, vec!["Interna-", "tionaliza-", "tion"]);
        if let Borrowed(s) = lines[0] {
            assert!(false, "should not have been borrowed: {:?}", s);
        }
        if let Borrowed(s) = lines[1] {
            assert!(false, "should not have been borrowed: {:?}", s);
        }
        if let Owned(ref s) = lines[2] {
            assert!(false, "should not have been owned: {:?}", s);
        }
    }

    #[test]
    #[cfg(feature = "hyphenation")]
    fn auto_hyphenation_with_hyphen() {
        let dictionary = Standard::from_embedded(Language::EnglishUS).unwrap();
        let options = Options::new(8).break_words(false);
        assert_eq!(
            wrap("over-caffinated", &options),
            vec!["over-", "caffinated"]
        );

        let options = options.word_splitter(WordSplitter::Hyphenation(dictionary));
        assert_eq!(
            wrap("over-caffinated", &options),
            vec!["over-", "caffi-", "nated"]
        );
    }

    #[test]
    fn break_words() {
        assert_eq!(wrap("foobarbaz", 3), vec!["foo", "bar", "baz"]);
    }

    #[test]
    fn break_words_wide_characters() {
        // Even the poor man's version of `ch_width` counts these
        // characters as wide.
        let options = Options::new(5).word_separator(WordSeparator::AsciiSpace);
        assert_eq!(wrap("Ｈｅｌｌｏ", options), vec!["Ｈｅ", "ｌｌ", "ｏ"]);
    }

    #[test]
    fn break_words_zero_width() {
        assert_eq!(wrap("foobar", 0), vec!["f", "o", "o", "b", "a", "r"]);
    }

    #[test]
    fn break_long_first_word() {
        assert_eq!(wrap("testx y", 4), vec!["test", "x y"]);
    }

    #[test]
    fn wrap_preserves_line_breaks_trims_whitespace() {
        assert_eq!(wrap("  ", 80), vec![""]);
        assert_eq!(wrap("  \n  ", 80), vec!["", ""]);
        assert_eq!(wrap("  \n \n  \n ", 80), vec!["", "", "", ""]);
    }

    #[test]
    fn wrap_colored_text() {
        // The words are much longer than 6 bytes, but they remain
        // intact after filling the text.
        let green_hello = "\u{1b}[0m\u{1b}[32mHello\u{1b}[0m";
        let blue_world = "\u{1b}[0m\u{1b}[34mWorld!\u{1b}[0m";
        assert_eq!(
            wrap(&format!("{} {}", green_hello, blue_world), 6),
            vec![green_hello, blue_world],
        );
    }
}
