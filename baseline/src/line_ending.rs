//! Line ending detection and conversion.

use std::fmt::Debug;

/// Supported line endings. Like in the Rust standard library, two line
/// endings are supported: `\r\n` and `\n`
#[derive(Clone, Copy, Debug, PartialEq, Eq)]
pub enum LineEnding {
    /// _Carriage return and line feed_ – a line ending sequence
    /// historically used in Windows. Corresponds to the sequence
    /// of ASCII control characters `0x0D 0x0A` or `\r\n`
    CRLF,
    /// _Line feed_ – a line ending historically used in Unix.
    ///  Corresponds to the ASCII control character `0x0A` or `\n`
    LF,
}

impl LineEnding {
    /// Turns this [`LineEnding`] value into its ASCII representation.
    #[inline]
    pub const fn as_str(&self) -> &'static str {
        match self {
            Self::CRLF => "\r\n",
            Self::LF => "\n",
        }
    }
}

/// An iterator over the lines of a string, as tuples of string slice
/// and [`LineEnding`] value; it only emits non-empty lines (i.e. having
/// some content before the terminating `\r\n` or `\n`).
///
/// This struct is used internally by the library.
#[derive(Debug, Clone, Copy)]
pub(crate) struct NonEmptyLines<'a>(pub &'a str);

impl<'a> Iterator for NonEmptyLines<'a> {
    type Item = (&'a str, Option<LineEnding>);

    fn next(&mut self) -> Option<Self::Item> {
        while let Some(lf) = self.0.find('\n') {
            if lf == 0 || (lf == 1 && self.0.as_bytes()[lf - 1] == b'\r') {
                self.0 = &self.0[(lf + 1)..];
                continue;
            }
            let trimmed = match self.0.as_bytes()[lf - 1] {
                b'\r' => (&self.0[..(lf - 1)], Some(LineEnding::CRLF)),
                _ => (&self.0[..lf], Some(LineEnding::LF)),
            };
            self.0 = &self.0[(lf + 1)..];
            return Some(trimmed);
        }
        if self.0.is_empty() {
            None
        } else {
            let line = std::mem::take(&mut self.0);
            Some((line, None))
        }
    }
}

#[cfg(test)]
mod tests {
    use super::*;

    #[test]
    fn non_empty_lines_full_case() {
        assert_eq!(
            NonEmptyLines("LF\nCRLF\r\n\r\n\nunterminated")
                .collect::<Vec<(&str, Option<LineEnding>)>>(),
            vec![
                ("LF", Some(LineEnding::LF)),
                ("CRLF", Some(LineEnding::CRLF)),
                ("unterminated", None),
            ]
        );
    }

    #[test]
    fn non_empty_lines_new_lines_only() {
        assert_eq!(NonEmptyLines("\r\n\n\n\r\n").next(), None);
    }

    #[test]
    fn non_empty_lines_no_input() {
        assert_eq!(NonEmptyLines("").next(), None);
    }
}
