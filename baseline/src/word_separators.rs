//! Functionality for finding words.
//!
//! In order to wrap text, we need to know where the legal break
//! points are, i.e., where the words of the text are. This means that
//! we need to define what a "word" is.
//!
//! A simple approach is to simply split the text on whitespace, but
//! this does not work for East-Asian languages such as Chinese or
//! Japanese where there are no spaces between words. Breaking a long
//! sequence of emojis is another example where line breaks might be
//! wanted even if there are no whitespace to be found.
//!
//! The [`WordSeparator`] enum is responsible for determining where
//! there words are in a line of text. Please refer to the enum and
//! its variants for more information.

#[cfg(feature = "unicode-linebreak")]
use crate::core::skip_ansi_escape_sequence;
use crate::core::Word;

/// Describes where words occur in a line of text.
///
/// The simplest approach is say that words are separated by one or
/// more ASCII spaces (`' '`). This works for Western languages
/// without emojis. A more complex approach is to use the Unicode line
/// breaking algorithm, which finds break points in non-ASCII text.
///
/// The line breaks occur between words, please see
/// [`WordSplitter`](crate::WordSplitter) for options of how to handle
/// hyphenation of individual words.
///
/// # Examples
///
/// ```
/// use textwrap::core::Word;
/// use textwrap::WordSeparator::AsciiSpace;
///
/// let words = AsciiSpace.find_words("Hello World!").collect::<Vec<_>>();
/// assert_eq!(words, vec![Word::from("Hello "), Word::from("World!")]);
/// ```
#[derive(Debug, Clone, Copy)]
pub enum WordSeparator {
    /// Find words by splitting on runs of `' '` characters.
    ///
    /// # Examples
    ///
    /// ```
    /// use textwrap::core::Word;
    /// use textwrap::WordSeparator::AsciiSpace;
    ///
    /// let words = AsciiSpace.find_words("Hello   World!").collect::<Vec<_>>();
    /// assert_eq!(words, vec![Word::from("Hello   "),
    ///                        Word::from("World!")]);
    /// ```
    AsciiSpace,

    /// Split `line` into words using Unicode break properties.
    ///
    /// This word separator uses the Unicode line breaking algorithm
    /// described in [Unicode Standard Annex
    /// #14](https://www.unicode.org/reports/tr14/) to find legal places
    /// to break lines. There is a small difference in that the U+002D
    /// (Hyphen-Minus) and U+00AD (Soft Hyphen) don’t create a line break:
    /// to allow a line break at a hyphen, use
    /// [`WordSplitter::HyphenSplitter`](crate::WordSplitter::HyphenSplitter).
    /// Soft hyphens are not currently supported.
    ///
    /// # Examples
    ///
    /// Unlike [`WordSeparator::AsciiSpace`], the Unicode line
    /// breaking algorithm will find line break opportunities between
    /// some characters with no intervening whitespace:
    ///
    /// ```
    /// #[cfg(feature = "unicode-linebreak")] {
    /// use textwrap::core::Word;
    /// use textwrap::WordSeparator::UnicodeBreakProperties;
    ///
    /// assert_eq!(UnicodeBreakProperties.find_words("Emojis: 😂😍").collect::<Vec<_>>(),
    ///            vec![Word::from("Emojis: "),
    ///                 Word::from("😂"),
    ///                 Word::from("😍")]);
    ///
    /// assert_eq!(UnicodeBreakProperties.find_words("CJK: 你好").collect::<Vec<_>>(),
    ///            vec![Word::from("CJK: "),
    ///                 Word::from("你"),
    ///                 Word::from("好")]);
    /// }
    /// ```
    ///
    /// A U+2060 (Word Joiner) character can be inserted if you want to
    /// manually override the defaults and keep the characters together:
    ///
    /// ```
    /// #[cfg(feature = "unicode-linebreak")] {
    /// use textwrap::core::Word;
    /// use textwrap::WordSeparator::UnicodeBreakProperties;
    ///
    /// assert_eq!(UnicodeBreakProperties.find_words("Emojis: 😂\u{2060}😍").collect::<Vec<_>>(),
    ///            vec![Word::from("Emojis: "),
    ///                 Word::from("😂\u{2060}😍")]);
    /// }
    /// ```
    ///
    /// The Unicode line breaking algorithm will also automatically
    /// suppress break breaks around certain punctuation characters::
    ///
    /// ```
    /// #[cfg(feature = "unicode-linebreak")] {
    /// use textwrap::core::Word;
    /// use textwrap::WordSeparator::UnicodeBreakProperties;
    ///
    /// assert_eq!(UnicodeBreakProperties.find_words("[ foo ] bar !").collect::<Vec<_>>(),
    ///            vec![Word::from("[ foo ] "),
    ///                 Word::from("bar !")]);
    /// }
    /// ```
    #[cfg(feature = "unicode-linebreak")]
    UnicodeBreakProperties,

    /// Find words using a custom word separator
    Custom(fn(line: &str) -> Box<dyn Iterator<Item = Word<'_>> + '_>),
}

impl PartialEq for WordSeparator {
    /// Compare two word separators.
    ///
    /// ```
    /// use textwrap::WordSeparator;
    ///
    /// assert_eq!(WordSeparator::AsciiSpace, WordSeparator::AsciiSpace);
    /// #[cfg(feature = "unicode-linebreak")] {
    ///     assert_eq!(WordSeparator::UnicodeBreakProperties,
    ///                WordSeparator::UnicodeBreakProperties);
    /// }
    /// ```
    ///
    /// Note that `WordSeparator::Custom` values never compare equal:
    ///
    /// ```
    /// use textwrap::WordSeparator;
    /// use textwrap::core::Word;
    /// fn word_separator(line: &str) -> Box<dyn Iterator<Item = Word<'_>> + '_> {
    ///     Box::new(line.split_inclusive(' ').map(Word::from))
    /// }
    /// assert_ne!(WordSeparator::Custom(word_separator),
    ///            WordSeparator::Custom(word_separator));
    /// ```
    fn eq(&self, other: &Self) -> bool {
        match (self, other) {
            (WordSeparator::AsciiSpace, WordSeparator::AsciiSpace) => true,
            #[cfg(feature = "unicode-linebreak")]
            (WordSeparator::UnicodeBreakProperties, WordSeparator::UnicodeBreakProperties) => true,
            (_, _) => false,
        }
    }
}

impl WordSeparator {
    /// Create a new word separator.
    ///
    /// The best available algorithm is used by default, i.e.,
    /// [`WordSeparator::UnicodeBreakProperties`] if available,
    /// otherwise [`WordSeparator::AsciiSpace`].
    pub const fn new() -> Self {
        #[cfg(feature = "unicode-linebreak")]
        {
            WordSeparator::UnicodeBreakProperties
        }

        #[cfg(not(feature = "unicode-linebreak"))]
        {
            WordSeparator::AsciiSpace
        }
    }

    // This function should really return impl Iterator<Item = Word>, but
    // this isn't possible until Rust supports higher-kinded types:
    // https://github.com/rust-lang/rfcs/blob/master/text/1522-conservative-impl-trait.md
    /// Find all words in `line`.
    pub fn find_words<'a>(&self, line: &'a str) -> Box<dyn Iterator<Item = Word<'a>> + 'a> {
        match self {
            WordSeparator::AsciiSpace => find_words_ascii_space(line),
            #[cfg(feature = "unicode-linebreak")]
            WordSeparator::UnicodeBreakProperties => find_words_unicode_break_properties(line),
            WordSeparator::Custom(func) => func(line),
        }
    }
}

fn find_words_ascii_space<'a>(line: &'a str) -> Box<dyn Iterator<Item = Word<'a>> + 'a> {
    let mut start = 0;
    let mut in_whitespace = false;
    let mut char_indices = line.char_indices();

    Box::new(std::iter::from_fn(move || {
        for (idx, ch) in char_indices.by_ref() {
            if in_whitespace && ch != ' ' {
                let word = Word::from(&line[start..idx]);
                start = idx;
                in_whitespace = ch == ' ';
                return Some(word);
            }

            in_whitespace = ch == ' ';
        }

        if start < line.len() {
            let word = Word::from(&line[start..]);
            start = line.len();
            return Some(word);
        }

        None
    }))
}

// Strip all ANSI escape sequences from `text`.
#[cfg(feature = "unicode-linebreak")]
fn strip_ansi_escape_sequences(text: &str) -> String {
    let mut result = String::with_capacity(text.len());

    let mut chars = text.chars();
    while let Some(ch) = chars.next() {
        if skip_ansi_escape_sequence(ch, &mut chars) {
            continue;
        }
        result.push(ch);
    }

    result
}

/// Soft hyphen, also knows as a “shy hyphen”. Should show up as ‘-’
/// if a line is broken at this point, and otherwise be invisible.
/// Textwrap does not currently support breaking words at soft
/// hyphens.
#[cfg(feature = "unicode-linebreak")]
const SHY: char = '\u{00ad}';

/// Find words in line. ANSI escape sequences are ignored in `line`.
#[cfg(feature = "unicode-linebreak")]
fn find_words_unicode_break_properties<'a>(
    line: &'a str,
) -> Box<dyn Iterator<Item = Word<'a>> + 'a> {
    // Construct an iterator over (original index, stripped index)
    // tuples. We find the Unicode linebreaks on a stripped string,
    // but we need the original indices so we can form words based on
    // the original string.
    let mut last_stripped_idx = 0;
    let mut char_indices = line.char_indices();
    let mut idx_map = std::iter::from_fn(move || match char_indices.next() {
        Some((orig_idx, ch)) => {
            let stripped_idx = last_stripped_idx;
            if !skip_ansi_escape_sequence(ch, &mut char_indices.by_ref().map(|(_, ch)| ch)) {
                last_stripped_idx += ch.len_utf8();
            }
            Some((orig_idx, stripped_idx))
        }
        None => None,
    });

    let stripped = strip_ansi_escape_sequences(line);
    let mut opportunities = unicode_linebreak::linebreaks(&stripped)
        // Remove final break opportunity, we will add it below using
        // &line[start..]; This ensures that we correctly include a
        // trailing ANSI escape sequence.
        .filter(|(idx, _)| *idx < stripped.len())
        .filter(|(idx, _)| {
            #[allow(clippy::match_like_matches_macro)]
            match &stripped[..*idx].chars().next_back() {
                // We suppress breaks at ‘-’ since we want to control
                // this via the WordSplitter.
                Some('-') => false,
                // Soft hyphens are currently not supported since we
                // require all `Word` fragments to be continuous in
                // the input string.
                Some(SHY) => false,
                // Other breaks should be fine!
                _ => true,
            }
        })
        .collect::<Vec<_>>()
        .into_iter();

    let mut start = 0;
    Box::new(std::iter::from_fn(move || {
        for (idx, _) in opportunities.by_ref() {
            if let Some((orig_idx, _)) = idx_map.find(|&(_, stripped_idx)| stripped_idx == idx) {
                let word = Word::from(&line[start..orig_idx]);
                start = orig_idx;
                return Some(word);
            }
        }

        if start < line.len() {
            let word = Word::from(&line[start..]);
            start = line.len();
            return Some(word);
        }

        None
    }))
}

#[cfg(test)]
mod tests {
    use super::WordSeparator::*;
    use super::*;

    // Like assert_eq!, but the left expression is an iterator.
    macro_rules! assert_iter_eq {
        ($left:expr, $right:expr) => {
            assert_eq!($left.collect::<Vec<_>>(), $right);
        };
    }

    fn to_words(words: Vec<&str>) -> Vec<Word<'_>> {
        words.into_iter().map(Word::from).collect()
    }

    macro_rules! test_find_words {
        ($ascii_name:ident,
         $unicode_name:ident,
         $([ $line:expr, $ascii_words:expr, $unicode_words:expr ]),+) => {
            #[test]
            fn $ascii_name() {
                $(
                    let expected_words = to_words($ascii_words.to_vec());
                    let actual_words = WordSeparator::AsciiSpace
                        .find_words($line)
                        .collect::<Vec<_>>();
                    assert_eq!(actual_words, expected_words, "Line: {:?}", $line);
                )+
            }

            #[test]
            #[cfg(feature = "unicode-linebreak")]
            fn $unicode_name() {
                $(
                    let expected_words = to_words($unicode_words.to_vec());
                    let actual_words = WordSeparator::UnicodeBreakProperties
                        .find_words($line)
                        .collect::<Vec<_>>();
                    assert_eq!(actual_words, expected_words, "Line: {:?}", $line);
                )+
            }
        };
    }

    test_find_words!(ascii_space_empty, unicode_empty, ["", [], []]);

    test_find_words!(
        ascii_single_word,
        unicode_single_word,
        ["foo", ["foo"], ["foo"]]
    );

    test_find_words!(
        ascii_two_words,
        unicode_two_words,
        ["foo bar", ["foo ", "bar"], ["foo ", "bar"]]
    );

    test_find_words!(
        ascii_multiple_words,
        unicode_multiple_words,
        ["foo bar", ["foo ", "bar"], ["foo ", "bar"]],
        ["x y z", ["x ", "y ", "z"], ["x ", "y ", "z"]]
    );

    test_find_words!(
        ascii_only_whitespace,
        unicode_only_whitespace,
        [" ", [" "], [" "]],
        ["    ", ["    "], ["    "]]
    );

    test_find_words!(
        ascii_inter_word_whitespace,
        unicode_inter_word_whitespace,
        ["foo   bar", ["foo   ", "bar"], ["foo   ", "bar"]]
    );

    test_find_words!(
        ascii_trailing_whitespace,
        unicode_trailing_whitespace,
        ["foo   ", ["foo   "], ["foo   "]]
    );

    test_find_words!(
        ascii_leading_whitespace,
        unicode_leading_whitespace,
        ["   foo", ["   ", "foo"], ["   ", "foo"]]
    );

    test_find_words!(
        ascii_multi_column_char,
        unicode_multi_column_char,
        ["\u{1f920}", ["\u{1f920}"], ["\u{1f920}"]] // cowboy emoji 🤠
    );

    test_find_words!(
        ascii_hyphens,
        unicode_hyphens,
        ["foo-bar", ["foo-bar"], ["foo-bar"]],
        ["foo- bar", ["foo- ", "bar"], ["foo- ", "bar"]],
        ["foo - bar", ["foo ", "- ", "bar"], ["foo ", "- ", "bar"]],
        ["foo -bar", ["foo ", "-bar"], ["foo ", "-bar"]]
    );

    test_find_words!(
        ascii_newline,
        unicode_newline,
        ["foo\nbar", ["foo\nbar"], ["foo\n", "bar"]]
    );

    test_find_words!(
        ascii_tab,
        unicode_tab,
        ["foo\tbar", ["foo\tbar"], ["foo\t", "bar"]]
    );

    test_find_words!(
        ascii_non_breaking_space,
        unicode_non_breaking_space,
        ["foo\u{00A0}bar", ["foo\u{00A0}bar"], ["foo\u{00A0}bar"]]
    );

    #[test]
    #[cfg(unix)]
    fn find_words_colored_text() {
        use termion::color::{Blue, Fg, Green, Reset};

        let green_hello = format!("{}Hello{} ", Fg(Green), Fg(Reset));
        let blue_world = format!("{}World!{}", Fg(Blue), Fg(Reset));
        assert_iter_eq!(
            AsciiSpace.find_words(&format!("{}{}", green_hello, blue_world)),
            vec![Word::from(&green_hello), Word::from(&blue_world)]
        );

        #[cfg(feature = "unicode-linebreak")]
        assert_iter_eq!(
            UnicodeBreakProperties.find_words(&format!("{}{}", green_hello, blue_world)),
            vec![Word::from(&green_hello), Word::from(&blue_world)]
        );
    }

    #[test]
    fn find_words_color_inside_word() {
        let text = "foo\u{1b}[0m\u{1b}[32mbar\u{1b}[0mbaz";
        assert_iter_eq!(AsciiSpace.find_words(text), vec![Word::from(text)]);

        #[cfg(feature = "unicode-linebreak")]
        assert_iter_eq!(
            UnicodeBreakProperties.find_words(text),
            vec![Word::from(text)]
        );
    }

    #[test]
    fn word_separator_new() {
        #[cfg(feature = "unicode-linebreak")]
        assert!(matches!(WordSeparator::new(), UnicodeBreakProperties));

        #[cfg(not(feature = "unicode-linebreak"))]
        assert!(matches!(WordSeparator::new(), AsciiSpace));
    }
}
