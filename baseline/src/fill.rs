//! Functions for filling text.

use crate::{wrap, wrap_algorithms, Options, WordSeparator};

/// Fill a line of text at a given width.
///
/// The result is a [`String`], complete with newlines between each
/// line. Use [`wrap()`] if you need access to the individual lines.
///
/// The easiest way to use this function is to pass an integer for
/// `width_or_options`:
///
/// ```
/// use textwrap::fill;
///
/// assert_eq!(
///     fill("Memory safety without garbage collection.", 15),
///     "Memory safety\nwithout garbage\ncollection."
/// );
/// ```
///
/// If you need to customize the wrapping, you can pass an [`Options`]
/// instead of an `usize`:
///
/// ```
/// use textwrap::{fill, Options};
///
/// let options = Options::new(15)
///     .initial_indent("- ")
///     .subsequent_indent("  ");
/// assert_eq!(
///     fill("Memory safety without garbage collection.", &options),
///     "- Memory safety\n  without\n  garbage\n  collection."
/// );
/// ```
pub fn fill<'a, Opt>(text: &str, width_or_options: Opt) -> String
where
    Opt: Into<Options<'a>>,
{
    let options = width_or_options.into();

    if text.len() < options.width && !text.contains('\n') && options.initial_indent.is_empty() {
        String::from(text.trim_end_matches(' '))
    } else {
        fill_slow_path(text, options)
    }
}

/// Slow path for fill.
///
/// This is taken when `text` is longer than `options.width`.
pub(crate) fn fill_slow_path(text: &str, options: Options<'_>) -> String {
    // This will avoid reallocation in simple cases (no
    // indentation, no hyphenation).
    let mut result = String::with_capacity(text.len());

    let line_ending_str = options.line_ending.as_str();
    for (i, line) in wrap(text, options).iter().enumerate() {
        if i > 0 {
            result.push_str(line_ending_str);
        }
        result.push_str(line);
    }

    result
}

/// Fill `text` in-place without reallocating the input string.
///
/// This function works by modifying the input string: some `' '`
/// characters will be replaced by `'\n'` characters. The rest of the
/// text remains untouched.
///
/// Since we can only replace existing whitespace in the input with
/// `'\n'` (there is no space for `"\r\n"`), we cannot do hyphenation
/// nor can we split words longer than the line width. We also need to
/// use `AsciiSpace` as the word separator since we need `' '`
/// characters between words in order to replace some of them with a
/// `'\n'`. Indentation is also ruled out. In other words,
/// `fill_inplace(width)` behaves as if you had called [`fill()`] with
/// these options:
///
/// ```
/// # use textwrap::{core, LineEnding, Options, WordSplitter, WordSeparator, WrapAlgorithm};
/// # let width = 80;
/// Options::new(width)
///     .break_words(false)
///     .line_ending(LineEnding::LF)
///     .word_separator(WordSeparator::AsciiSpace)
///     .wrap_algorithm(WrapAlgorithm::FirstFit)
///     .word_splitter(WordSplitter::NoHyphenation);
/// ```
///
/// The wrap algorithm is
/// [`WrapAlgorithm::FirstFit`](crate::WrapAlgorithm::FirstFit) since
/// this is the fastest algorithm — and the main reason to use
/// `fill_inplace` is to get the string broken into newlines as fast
/// as possible.
///
/// A last difference is that (unlike [`fill()`]) `fill_inplace` can
/// leave trailing whitespace on lines. This is because we wrap by
/// inserting a `'\n'` at the final whitespace in the input string:
///
/// ```
/// let mut text = String::from("Hello   World!");
/// textwrap::fill_inplace(&mut text, 10);
/// assert_eq!(text, "Hello  \nWorld!");
/// ```
///
/// If we didn't do this, the word `World!` would end up being
/// indented. You can avoid this if you make sure that your input text
/// has no double spaces.
///
/// # Performance
///
/// In benchmarks, `fill_inplace` is about twice as fast as
/// [`fill()`]. Please see the [`linear`
/// benchmark](https://github.com/mgeisler/textwrap/blob/master/benchmarks/linear.rs)
/// for details.
pub fn fill_inplace(text: &mut String, width: usize) {
    let mut indices = Vec::new();

    let mut offset = 0;
    for line in text.split('\n') {
        let words = WordSeparator::AsciiSpace
            .find_words(line)
            .collect::<Vec<_>>();
        let wrapped_words = wrap_algorithms::wrap_first_fit(&words, &[width as f64]);

        let mut line_offset = offset;
        for words in &wrapped_words[..wrapped_words.len() - 1] {
            let line_len = words
                .iter()
                .map(|word| word.len() + word.whitespace.len())
                .sum::<usize>();

            line_offset += line_len;
            // We've advanced past all ' ' characters -- want to move
            // one ' ' backwards and insert our '\n' there.
            indices.push(line_offset - 1);
        }

        // Advance past entire line, plus the '\n' which was removed
        // by the split call above.
        offset += line.len() + 1;
    }

    let mut bytes = std::mem::take(text).into_bytes();
    for idx in indices {
        bytes[idx] = b'\n';
    }
    *text = String::from_utf8(bytes).unwrap();
}

#[cfg(test)]
mod tests {
    use super::*;
    use crate::WrapAlgorithm;

    #[test]
    fn fill_simple() {
        assert_eq!(fill("foo bar baz", 10), "foo bar\nbaz");
    }

    #[test]
    fn fill_unicode_boundary() {
        // https://github.com/mgeisler/textwrap/issues/390
        fill("\u{1b}!Ͽ", 10);
    }

    #[test]
    fn non_breaking_space() {
        let options = Options::new(5).break_words(false);
        assert_eq!(fill("foo bar baz", &options), "foo bar baz");
    }

    #[test]
    fn non_breaking_hyphen() {
        let options = Options::new(5).break_words(false);
        assert_eq!(fill("foo‑bar‑baz", &options), "foo‑bar‑baz");
    }

    #[test]
    fn fill_preserves_line_breaks_trims_whitespace() {
        assert_eq!(fill("  ", 80), "");
        assert_eq!(fill("  \n  ", 80), "\n");
        assert_eq!(fill("  \n \n  \n ", 80), "\n\n\n");
    }

    #[test]
    fn preserve_line_breaks() {
        assert_eq!(fill("", 80), "");
        assert_eq!(fill("\n", 80), "\n");
        assert_eq!(fill("\n\n\n", 80), "\n\n\n");
        assert_eq!(fill("test\n", 80), "test\n");
        assert_eq!(fill("test\n\na\n\n", 80), "test\n\na\n\n");
        assert_eq!(
            fill(
                "1 3 5 7\n1 3 5 7",
                Options::new(7).wrap_algorithm(WrapAlgorithm::FirstFit)
            ),
            "1 3 5 7\n1 3 5 7"
        );
        assert_eq!(
            fill(
                "1 3 5 7\n1 3 5 7",
                Options::new(5).wrap_algorithm(WrapAlgorithm::FirstFit)
            ),
            "1 3 5\n7\n1 3 5\n7"
        );
    }

    #[test]
    fn break_words_line_breaks() {
        assert_eq!(fill("ab\ncdefghijkl", 5), "ab\ncdefg\nhijkl");
        assert_eq!(fill("abcdefgh\nijkl", 5), "abcde\nfgh\nijkl");
    }

    #[test]
    fn break_words_empty_lines() {
        assert_eq!(
            fill("foo\nbar", &Options::new(2).break_words(false)),
            "foo\nbar"
        );
    }

    #[test]
    fn fill_inplace_empty() {
        let mut text = String::from("");
        fill_inplace(&mut text, 80);
        assert_eq!(text, "");
    }

    #[test]
    fn fill_inplace_simple() {
        let mut text = String::from("foo bar baz");
        fill_inplace(&mut text, 10);
        assert_eq!(text, "foo bar\nbaz");
    }

    #[test]
    fn fill_inplace_multiple_lines() {
        let mut text = String::from("Some text to wrap over multiple lines");
        fill_inplace(&mut text, 12);
        assert_eq!(text, "Some text to\nwrap over\nmultiple\nlines");
    }

    #[test]
    fn fill_inplace_long_word() {
        let mut text = String::from("Internationalization is hard");
        fill_inplace(&mut text, 10);
        assert_eq!(text, "Internationalization\nis hard");
    }

    #[test]
    fn fill_inplace_no_hyphen_splitting() {
        let mut text = String::from("A well-chosen example");
        fill_inplace(&mut text, 10);
        assert_eq!(text, "A\nwell-chosen\nexample");
    }

    #[test]
    fn fill_inplace_newlines() {
        let mut text = String::from("foo bar\n\nbaz\n\n\n");
        fill_inplace(&mut text, 10);
        assert_eq!(text, "foo bar\n\nbaz\n\n\n");
    }

    #[test]
    fn fill_inplace_newlines_reset_line_width() {
        let mut text = String::from("1 3 5\n1 3 5 7 9\n1 3 5 7 9 1 3");
        fill_inplace(&mut text, 10);
        assert_eq!(text, "1 3 5\n1 3 5 7 9\n1 3 5 7 9\n1 3");
    }

    #[test]
    fn fill_inplace_leading_whitespace() {
        let mut text = String::from("  foo bar baz");
        fill_inplace(&mut text, 10);
        assert_eq!(text, "  foo bar\nbaz");
    }

    #[test]
    fn fill_inplace_trailing_whitespace() {
        let mut text = String::from("foo bar baz  ");
        fill_inplace(&mut text, 10);
        assert_eq!(text, "foo bar\nbaz  ");
    }

    #[test]
    fn fill_inplace_interior_whitespace() {
        // To avoid an unwanted indentation of "baz", it is important
        // to replace the final ' ' with '\n'.
        let mut text = String::from("foo  bar    baz");
        fill_inplace(&mut text, 10);
        assert_eq!(text, "foo  bar   \nbaz");
    }
}
